(* The specification's seed function on the public BIP39 test vector (Trezor):
   mnemonic "abandon x11 about", passphrase "TREZOR".  2048 iterations of HMAC-SHA-512 evaluated by the
   kernel's VM on the Gallina definitions: a test of the definitions (pinned inputs only; never rebuilt when /repo changes). *)
From B39 Require Import Lib.Base Lib.Sha512 Lib.Hmac Lib.Pbkdf2 Lib.Nfkd Spec.Bip39Spec.
Definition abandon_about : list byte :=
  list_byte_of_string "abandon abandon abandon abandon abandon abandon abandon abandon abandon abandon abandon about".
Definition trezor : list byte := list_byte_of_string "TREZOR".
Example seed_vector_trezor :
  hex_of_bytes (bip39_seed abandon_about trezor) =
  0xc55257c360c07c72029aebc1b53c05ed0362ada38ead3e3e9efa3708e53495531f09a6987599d18264c1e1c92f2cf141630c7a3c4ab7c81b2f001698e7463b04%N.
Proof. vm_compute. reflexivity. Qed.
