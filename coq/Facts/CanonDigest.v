(* The pinned canonical tables (Spec/Canon_*.v), written out as the upstream files
   (one word per line, LF-terminated), have the pinned upstream SHA-256 digests -
   recomputed inside Coq with the Gallina SHA-256.  Pinned inputs only: this file
   never needs rebuilding when /repo changes. *)
From B39 Require Import Lib.Base Lib.Sha256 Spec.Bip39Spec Spec.CanonDigests.

Definition file_of (t : list (list byte)) : list byte := flat_map (fun w => w ++ [x0a]) t.

Lemma canon_digests_match :
  forallb (fun nd => (hex_of (sha256 (file_of (canon (fst nd)))) =? snd nd)%N) canon_digests = true.
Proof. vm_compute. reflexivity. Qed.

Lemma canon_digests_cover : map fst canon_digests = map fst canon_tables.
Proof. reflexivity. Qed.
