(* modelrun: evaluates the extracted Gallina model (mode "model") or the
   extracted specification (mode "spec") on a case file, one result line per
   case.  Hand-written glue (trusted): parsing, hex conversion, printing. *)
open Model

let rec pos_of_int i = if i = 1 then XH else if i land 1 = 1 then XI (pos_of_int (i lsr 1)) else XO (pos_of_int (i lsr 1))
let n_of_int i = if i = 0 then N0 else Npos (pos_of_int i)
let rec int_of_pos = function XH -> 1 | XO p -> 2 * int_of_pos p | XI p -> 2 * int_of_pos p + 1
let int_of_n = function N0 -> 0 | Npos p -> int_of_pos p
let nat_of_int i = let rec go acc i = if i = 0 then acc else go (S acc) (i - 1) in go O i
let int_of_nat n = let rec go acc = function O -> acc | S m -> go (acc + 1) m in go 0 n
let z_of_int i = if i = 0 then Z0 else if i > 0 then Zpos (pos_of_int i) else Zneg (pos_of_int (-i))

(* decimal string (optional sign, any size) to Z, using the extracted Z arithmetic *)
let z_of_string s =
  let neg = String.length s > 0 && s.[0] = '-' in
  let ten = z_of_int 10 in
  let acc = ref Z0 in
  String.iteri (fun i c -> if i = 0 && neg then () else
    acc := z_add (z_mul !acc ten) (z_of_int (Char.code c - 48))) s;
  if neg then z_opp !acc else !acc

let byte_tab = Array.init 256 (fun i -> byte_of_N (n_of_int i))
let int_of_byte b = int_of_n (byte_to_N b)
let bytes_of_hex s =
  if s = "-" || s = "nil" then [] else begin
    let n = String.length s / 2 in
    List.init n (fun i -> byte_tab.(int_of_string ("0x" ^ String.sub s (2 * i) 2)))
  end
let hex_of_bytes l =
  if l = [] then "-" else begin
    let b = Buffer.create 64 in
    List.iter (fun x -> Buffer.add_string b (Printf.sprintf "%02x" (int_of_byte x))) l;
    Buffer.contents b
  end
let rec ocaml_string = function EmptyString -> "" | String (a, r) ->
  String.make 1 (Char.chr (int_of_byte (byte_of_ascii a))) ^ ocaml_string r

let bytes_of_ocaml s = List.init (String.length s) (fun i -> byte_tab.(Char.code s.[i]))
let split_on c s = String.split_on_char c s
let sha = sha256

(* ---------- scripts: d1:e1,d2:e2,...  ("-" = empty script) ---------- *)
(* error kinds: - eof ueof x<n> (an arbitrary error value) t<n> (an error reporting itself temporary);
   an optional @<ms> suffix (the source blocks before answering) does not exist for the model *)
let ioerr_of_string s0 =
  let s = (match String.index_opt s0 '@' with Some k -> String.sub s0 0 k | None -> s0) in
  match s with
  | "-" -> None | "eof" -> Some IoEOF | "ueof" -> Some IoUnexpectedEOF
  | s -> let n = int_of_string (String.sub s 1 (String.length s - 1)) in
         Some (IoOther (n_of_int (if s.[0] = 't' then 1000 + n else n)))
let script_of_string s =
  if s = "-" then [] else
  List.map (fun item -> match split_on ':' item with
    | [d; e] -> (bytes_of_hex d, ioerr_of_string e)
    | _ -> failwith ("bad script item " ^ item)) (split_on ',' s)
let script_bytes sc = List.fold_left (fun a (d, _) -> a + List.length d) 0 sc

(* ---------- printing ---------- *)
let ioerr_str = function IoEOF -> "eof" | IoUnexpectedEOF -> "ueof"
  | IoOther n -> let k = int_of_n n in if k >= 1000 then "t" ^ string_of_int (k - 1000) else "x" ^ string_of_int k
let err_class = function
  | ErrWordLen -> "wordlen" | ErrEntropyLen -> "entropylen" | ErrChecksumIncorrect -> "checksum"
  | ErrUnknownWord (tok, pos) -> Printf.sprintf "unknown %d %s" (int_of_nat pos) (hex_of_bytes tok)
  | ErrIO e -> "io " ^ ioerr_str e
  | ErrFresh _ -> "other"
let str_err_result = function
  | Panic _ -> "panic"
  | Ret (s, None) -> "ok " ^ hex_of_bytes s
  | Ret (s, Some e) -> if s = [] then "err " ^ err_class e else "err+str " ^ err_class e
let check_result = function
  | Panic _ -> "panic"
  | Ret None -> "nil"
  | Ret (Some e) -> err_class e
let valid_result = function Panic _ -> "panic" | Ret true -> "1" | Ret false -> "0"
let string_result = function Panic _ -> "panic" | Ret s -> "ok " ^ hex_of_bytes s
let b01 b = if b then "1" else "0"
(* the domain flag of a string: "1" = valid UTF-8 whose NFKD form has no run of more than 30 modifiers (the library
   contract claims UAX #15 NFKD there), "0" = valid UTF-8 outside that domain, "u" = not valid UTF-8 (the contract
   claims only that the library's output is not valid UTF-8 either) *)
let dom1 b = if not (utf8_valid b) then "u" else b01 (xsafe b)
let dom2 m p = if not (utf8_valid m && utf8_valid p) then "u" else b01 (xsafe m && xsafe p)

let lang_name z = (* first declared constant with this value *)
  let rec go = function [] -> None | (nm, v) :: r -> if v = z then Some nm else go r in
  go lang_consts
let is_num s = s <> "" && (s.[0] = '-' || (s.[0] >= '0' && s.[0] <= '9'))
(* a language field: the identifier of a declared constant, or a decimal value *)
let z_of_lang s =
  if is_num s then z_of_string s else begin
    let rec go = function [] -> failwith ("unknown language " ^ s) | (nm, v) :: r -> if ocaml_string nm = s then v else go r in
    go lang_consts
  end
(* the specification names languages by identifier; a number stands for the constant declared with that value *)

let valid_ent_len n = List.mem n [16; 20; 24; 28; 32]
let valid_wc n = List.mem n [12; 15; 18; 21; 24]

(* ---------- one op in model mode (state threaded for histories) ---------- *)
let op_of_fields f = match f with
  | ["E"; lang; ent] -> OpEntropy (bytes_of_hex ent, z_of_lang lang)
  | ["N"; n; lang; sc] -> OpNew (z_of_string n, z_of_lang lang, script_of_string sc)
  | ["C"; lang; s] -> OpCheck (bytes_of_hex s, z_of_lang lang)
  | ["V"; lang; s] -> OpValid (bytes_of_hex s, z_of_lang lang)
  | ["S"; m; p] -> OpSeed (bytes_of_hex m, bytes_of_hex p)
  | ["L"; i] -> OpString (z_of_lang i)
  | _ -> failwith ("bad op: " ^ String.concat " " f)

let seed_args m p =
  let pw = nfkd m and salt = nfkd (app seed_prefix p) in
  Printf.sprintf "args %s %s %d %d xs=%s" (hex_of_bytes pw) (hex_of_bytes salt)
    (int_of_n seed_iter) (int_of_n seed_keylen) (dom2 m p)

let result_str full o r = match o, r with
  | _, REntropy x -> str_err_result x
  | OpNew (_, _, sc), RNew (x, rest) -> Printf.sprintf "%s used=%d" (str_err_result x) (script_bytes sc - script_bytes rest)
  | _, RCheck x -> check_result x
  | _, RValid x -> "valid=" ^ valid_result x
  | OpSeed (m, p), RSeed x -> if full then "seed " ^ hex_of_bytes x else seed_args m p
  | _, RString x -> string_result x
  | _, _ -> "?"

let model_op st full o =
  match o with
  | OpSeed (m, p) when not full -> (st, seed_args m p)   (* avoid the 2048 iterations *)
  | OpCheck (m, l) ->   (* the harness calls CheckMnemonic and then IsMnemonicValid *)
    let (st1, r1) = api_step nfkd st o in
    let (st2, r2) = api_step nfkd st1 (OpValid (m, l)) in
    (st2, result_str full o r1 ^ " " ^ result_str full o r2)
  | _ -> let (st', r) = api_step nfkd st o in (st', result_str full o r)

let model_line line =
  match split_on ' ' line with
  | "SF" :: m :: [p] -> snd (model_op init_state true (OpSeed (bytes_of_hex m, bytes_of_hex p)))
  | "Q" :: rest ->
    let ops = split_on '|' (String.concat " " rest) in
    let st = ref init_state in
    let outs = List.map (fun o ->
      let f = List.filter (fun x -> x <> "") (split_on ' ' o) in
      let (st', s) = model_op !st false (op_of_fields f) in st := st'; s) ops in
    String.concat " | " outs
  | ["H"; m] -> hex_of_bytes (sha256 (bytes_of_hex m))
  | ["H5"; m] -> hex_of_bytes (sha512 (bytes_of_hex m))
  | ["M"; k; m] -> hex_of_bytes (hmac_sha512 (bytes_of_hex k) (bytes_of_hex m))
  | ["P"; pw; salt; c; len] ->
    hex_of_bytes (pbkdf2_hmac_sha512 (bytes_of_hex pw) (bytes_of_hex salt) (n_of_int (int_of_string c)) (nat_of_int (int_of_string len)))
  | ["K"; s] -> let b = bytes_of_hex s in Printf.sprintf "%s xs=%s" (hex_of_bytes (nfkd b)) (dom1 b)
  | ["R"; need; sc] ->
    let s = script_of_string sc in
    let ((buf, e), rest) = read_full (nat_of_int (int_of_string need)) s in
    Printf.sprintf "n=%d err=%s used=%d" (List.length buf) (match e with None -> "-" | Some e -> ioerr_str e)
      (script_bytes s - script_bytes rest)
  | ["I"; i] -> hex_of_bytes (itoa (z_of_string i))
  | ["TR"; var; src] -> (* the generator tool: template rendering of a fetched file *)
    (match render (bytes_of_hex var) (bytes_of_hex src) with None -> "none" | Some o -> "ok " ^ hex_of_bytes o)
  | ["TL"; file] -> (* the model's reader of a generated Go file *)
    (match go_list_literal (bytes_of_hex file) with
     | None -> "none"
     | Some (v, ws) -> Printf.sprintf "ok %s %d %s" (hex_of_bytes v) (List.length ws) (String.concat "," (List.map hex_of_bytes ws)))
  | f -> snd (model_op init_state false (op_of_fields f))

(* ---------- spec mode ---------- *)
let x20 = byte_tab.(0x20)
(* the canonical table named by a language field (identifier, or the value of a declared constant) *)
let spec_name s =
  let target = if is_num s then (match lang_name (z_of_string s) with Some nm -> Some (ocaml_string nm) | None -> None) else Some s in
  match target with
  | None -> None
  | Some t -> let rec go = function [] -> None | (nm, _) :: r -> if ocaml_string nm = t then Some nm else go r in go canon_tables

let verdict_str = function
  | VOk -> "nil" | VWordLen -> "wordlen" | VChecksum -> "checksum"
  | VUnknown (t, i) -> Printf.sprintf "unknown %d %s" (int_of_nat i) (hex_of_bytes t)

let spec_line line =
  match split_on ' ' line with
  | ["E"; lang; ent] ->
    let e = bytes_of_hex ent in
    if not (valid_ent_len (List.length e)) then "err entropylen"
    else (match spec_name lang with
      | None -> "unspecified"
      | Some nm -> "ok " ^ hex_of_bytes (bip39_encode sha nm e))
  | ["C"; lang; s] ->
    let b = bytes_of_hex s in
    (match spec_name lang with
     | None -> "unspecified"
     | Some nm ->
       (* class: the specification's classifier on the 0x20-separated tokens of the NFKD form;
          accept: the specification's acceptance on the Unicode-whitespace tokens of the NFKD form *)
       let v = classify sha (tbl_get (canon nm)) (split_at (fun c -> c = x20) (nfkd b)) in
       Printf.sprintf "%s class=%s xs=%s" (if spec_accepts sha nm b then "accept" else "reject") (verdict_str v) (dom1 b))
  | ["S"; m; p] ->
    let m = bytes_of_hex m and p = bytes_of_hex p in
    Printf.sprintf "args %s %s 2048 64 xs=%s" (hex_of_bytes (nfkd m)) (hex_of_bytes (app mnemonic_salt (nfkd p))) (dom2 m p)
  | ["SF"; m; p] -> "seed " ^ hex_of_bytes (bip39_seed (bytes_of_hex m) (bytes_of_hex p))
  | ["L"; i] ->
    if not (is_num i) then "ok " ^ hex_of_bytes (bytes_of_ocaml i) else begin
      let z = z_of_string i in
      match lang_name z with
      | Some nm -> "ok " ^ hex_of_bytes (list_byte_of_string nm)
      | None -> "ok " ^ hex_of_bytes (List.concat [bytes_of_ocaml "Language("; itoa z; bytes_of_ocaml ")"])
    end
  | ["D"; lang; s] ->
    (match spec_name lang with
     | None -> "unspecified"
     | Some nm -> (match bip39_decode nm (bytes_of_hex s) with None -> "none" | Some e -> "ent " ^ hex_of_bytes e))
  | ["T"; lang; s] -> (* whitespace tokens of the NFKD form *)
    ignore lang; String.concat "," (List.map hex_of_bytes (ws_tokens (nfkd (bytes_of_hex s))))
  | ["K"; s] -> let b = bytes_of_hex s in Printf.sprintf "%s xs=%s" (hex_of_bytes (nfkd b)) (dom1 b)
  | _ -> "unsupported-in-spec-mode"

exception Case_timeout
let case_seconds = try int_of_string (Sys.getenv "MODELRUN_CASE_SECONDS") with _ -> 300
let () = Sys.set_signal Sys.sigalrm (Sys.Signal_handle (fun _ -> raise Case_timeout))

let () =
  let mode = if Array.length Sys.argv > 1 then Sys.argv.(1) else "model" in
  let f = match mode with "model" -> model_line | "spec" -> spec_line | _ -> failwith "mode: model|spec" in
  let out = Buffer.create 65536 in
  (try
    while true do
      let line = input_line stdin in
      if line <> "" then begin
        (* a per-case time budget and a memory cap (RLIMIT_AS set by the caller) keep one hostile case - e.g. a word
           count near 2^62 reaching make()/Z.to_nat in a mutated tree - from stalling the whole run *)
        ignore (Unix.alarm case_seconds);
        let r = (try f line with Stack_overflow -> "driver-error stack-overflow" | Out_of_memory -> (Gc.compact (); "driver-error out-of-memory")
                 | Case_timeout -> "driver-error timeout" | Failure m -> "driver-error " ^ m | Not_found -> "driver-error not-found" | Invalid_argument m -> "driver-error " ^ m) in
        ignore (Unix.alarm 0);
        (* one result per line, flushed at once: if a case kills the process the caller knows which one *)
        print_string r; print_char '\n'; flush stdout
      end
    done
  with End_of_file -> ());
  print_string (Buffer.contents out)
