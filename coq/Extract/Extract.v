(* Extraction of the executable model and specification to OCaml.
   ExtrOcamlBasic only: bool, option, unit, list, prod, sumbool, sumor map to
   OCaml's; N, Z, positive, nat, byte stay the extracted inductives. *)
Require Extraction.
Require ExtrOcamlBasic.
From B39 Require Import Lib.Base Lib.Bits Lib.Sha256 Lib.Sha512 Lib.Hmac Lib.Pbkdf2 Lib.Utf8 Lib.Nfkd.
From B39 Require Import Model.GenTypes Model.Model Model.State Model.ToolModel Spec.Bip39Spec.
From B39 Require Import Gen.Lang Gen.Gates Gen.Stringer Gen.Body Gen.Tool.

Definition z_add := Z.add.
Definition z_mul := Z.mul.
Definition z_opp := Z.opp.
Definition z_of_nat := Z.of_nat.
Definition n_to_nat := N.to_nat.
Definition n_of_nat := N.of_nat.
Definition byte_to_N := Byte.to_N.

Extraction "model.ml"
  z_add z_mul z_opp z_of_nat n_to_nat n_of_nat byte_to_N byte_of_N
  sha256 sha512 hmac_sha512 pbkdf2_hmac_sha512 nfkd xsafe has_cgj utf8_decode utf8_valid
  NewMnemonicByEntropy NewMnemonic CheckMnemonic IsMnemonicValid MnemonicToSeed String_
  map_get mapping_pure read_full
  init_state api_step pure run
  lang_consts seed_prefix seed_iter seed_keylen
  bip39_encode bip39_decode spec_accepts bip39_seed mnemonic_salt ws_tokens itoa
  canon_tables canon classify tbl_get split_at
  render go_list_literal.
