(* Executable, panic-aware model of the Go package (root package of
   isLishude/bip39).  Function bodies are transcribed statement by statement;
   every table, gate and literal they use is taken from coq/Gen (regenerated
   from /repo on every run).  No proofs in this file. *)
From Coq Require DecimalString.
From B39 Require Import Lib.Base Lib.Bits Lib.Sha256 Lib.Pbkdf2 Model.GenTypes.
From B39 Require Import Gen.Lang Gen.Gates Gen.Stringer Gen.Body.
Local Open Scope N_scope.

(* ---------- lang.go: Language.list() ---------- *)
Definition list_of (lan : Z) : table :=
  match find (fun c => Z.eqb (lc_value c) lan) list_cases with
  | Some c => lc_table c
  | None => list_default
  end.

(* ---------- math/big as used here ---------- *)
(* big.Int.Bytes(): minimal big-endian bytes, empty for 0 *)
Definition big_bytes (n : N) : list byte :=
  map (fun i => byte_of_N (N.shiftr n (8 * N.of_nat i))) (rev (seq 0 (N.to_nat ((N.size n + 7) / 8)))).

(* 1 << (8 - k) with k : uint, as an int64: the subtraction wraps for k > 8 and
   the shift count is then >= 64, giving 0 *)
Definition shl1_8_minus (k : N) : N := if k <=? 8 then 2 ^ (8 - k) else 0.

(* ---------- entropy.go: fromEntropy ---------- *)
Fixpoint words_loop (n : nat) (entInt : N) (lgList : table) (acc : list (list byte)) : outcome (list (list byte)) :=
  match n with
  | O => Ret acc
  | S k =>
    let wordIdx := N.land entInt mask_and in
    if mask_quo =? 0 then Panic "division by zero" else
    let entInt' := entInt / mask_quo in
    match nth_error lgList (N.to_nat wordIdx) with
    | None => Panic "index out of range"
    | Some w => words_loop k entInt' lgList (w :: acc)
    end
  end.

Definition fromEntropy (entropy : list byte) (wordLen : Z) (lg : Z) : outcome (list byte) :=
  let checksum := firstn 1 (sha256 entropy) in
  let csInt := be_to_N checksum in
  let csBitLen := N.of_nat (length entropy / 4) in
  let divisor := shl1_8_minus csBitLen in
  if divisor =? 0 then Panic "division by zero" else
  let csInt := csInt / divisor in
  let entInt := N.shiftl (be_to_N entropy) csBitLen + csInt in
  if ((wordLen <? 0) || (17592186044416 <? wordLen))%Z then Panic "makeslice: len out of range" else  (* make([]string, n): 16-byte elements *)
  match words_loop (Z.to_nat wordLen) entInt (list_of lg) [] with
  | Panic w => Panic w
  | Ret wordList =>
    if Z.eqb lg sep_special_value then Ret (join sep_special wordList)
    else Ret (join sep_default wordList)
  end.

(* ---------- bip39.go: NewMnemonicByEntropy ---------- *)
Definition NewMnemonicByEntropy (entropy : list byte) (lang : Z) : outcome (list byte * option error) :=
  let entLen := Z.of_nat (length entropy) in
  if gate_entropy entLen then Ret ([], Some gate_entropy_err)
  else omap (fun s => (s, None)) (fromEntropy entropy (Z.quot entLen 4 * 3) lang).

(* ---------- io.ReadFull over a scripted reader ----------
   A script is the list of responses the reader will give.  Read(p) pops the
   next response (d, e): if d fits in p it is delivered whole together with e;
   otherwise len(p) bytes are delivered with a nil error and the rest of the
   response stays at the head.  An exhausted script answers (0, io.EOF). *)
Definition script := list (list byte * option ioerr).

Definition eof_adjust (e : ioerr) (n : nat) : ioerr :=
  match e with IoEOF => if (0 <? n)%nat then IoUnexpectedEOF else IoEOF | _ => e end.

(* io.ReadAtLeast(r, buf, len(buf)) with len(buf) = need > length got *)
Fixpoint read_loop (need : nat) (got : list byte) (s : script) : (list byte * option ioerr) * script :=
  match s with
  | [] => ((got, Some (eof_adjust IoEOF (length got))), [])
  | (d, e) :: rest =>
    let room := (need - length got)%nat in
    if (length d <=? room)%nat then
      let got' := got ++ d in
      if (need <=? length got')%nat then ((got', None), rest)
      else match e with
           | None => read_loop need got' rest
           | Some err => ((got', Some (eof_adjust err (length got'))), rest)
           end
    else ((got ++ firstn room d, None), (skipn room d, e) :: rest)
  end.

Definition read_full (need : nat) (s : script) : (list byte * option ioerr) * script :=
  if (need =? 0)%nat then (([], None), s) else read_loop need [] s.

(* the same function with the buffer length as a binary number: executing the model never builds a unary
   number of the size of the requested buffer (only of the size of data actually delivered);
   Proofs/Reader.v: read_full_N need = read_full (N.to_nat need) *)
Fixpoint read_loop_N (need : N) (got : list byte) (s : script) : (list byte * option ioerr) * script :=
  match s with
  | [] => ((got, Some (eof_adjust IoEOF (length got))), [])
  | (d, e) :: rest =>
    let room := need - N.of_nat (length got) in
    if N.of_nat (length d) <=? room then
      let got' := got ++ d in
      if need <=? N.of_nat (length got') then ((got', None), rest)
      else match e with
           | None => read_loop_N need got' rest
           | Some err => ((got', Some (eof_adjust err (length got'))), rest)
           end
    else ((got ++ firstn (N.to_nat room) d, None), (skipn (N.to_nat room) d, e) :: rest)
  end.
Definition read_full_N (need : N) (s : script) : (list byte * option ioerr) * script :=
  if need =? 0 then (([], None), s) else read_loop_N need [] s.

(* ---------- bip39.go: NewMnemonic ---------- *)
Definition NewMnemonic (length_ : Z) (lang : Z) (s : script) : outcome (list byte * option error) * script :=
  if gate_words length_ then (Ret ([], Some gate_words_err), s) else
  let n := (length_ + Z.quot length_ 3)%Z in
  (* make([]byte, n): a negative length, or one beyond the allocator's limit (2^48 bytes on 64-bit Linux),
     is the run-time panic "makeslice: len out of range" *)
  if ((n <? 0) || (281474976710656 <? n))%Z then (Panic "makeslice: len out of range", s) else
  let '((buf, err), s') := read_full_N (Z.to_N n) s in
  match err with
  | Some e => (Ret ([], Some (ErrIO e)), s')
  | None => (omap (fun m => (m, None)) (fromEntropy buf length_ lang), s')
  end.

(* ---------- mnemonic.go: CheckMnemonic ----------
   get = lookup in the language's word->index map (nil map: always None);
   lib = norm.NFKD.String *)
Section Check.
Variable lib : list byte -> list byte.
Variable get : list byte -> option N.

Fixpoint assemble (toks : list (list byte)) (wc i : nat) (acc : N) : (list byte * nat) + N :=
  match toks with
  | [] => inr acc
  | w :: r =>
    match get w with
    | None => inl (w, i)
    | Some idx => assemble r wc (S i) (acc + N.shiftl idx (N.of_nat ((wc - i - 1) * 11)))
    end
  end.

(* padded = true: the code after the fix (recovered entropy left-padded to
   ENT/8 bytes); padded = false: the pinned commit (big.Int.Bytes() as is) *)
Definition CheckMnemonic_gen (padded : bool) (mnemonic : list byte) : outcome (option error) :=
  let m := lib mnemonic in
  let wordList := split_at (fun b => Byte.eqb b x20) m in
  let wordCount := length wordList in
  if gate_count (Z.of_nat wordCount) then Ret (Some gate_count_err) else
  match assemble wordList wordCount 0 0 with
  | inl (tok, pos) => Ret (Some (ErrUnknownWord tok pos))
  | inr entBig =>
    let cs := N.of_nat (wordCount / 3) in
    if 62 <? cs then Panic "shift count outside the modelled range" else
    let shift := 2 ^ cs in
    let csBig := N.land entBig (shift - 1) in
    let raw := big_bytes (entBig / shift) in
    let total := (wordCount / 3 * 4)%nat in
    if padded && (total <? length raw)%nat then Panic "slice bounds out of range" else
    let entBytes := if padded then repeat x00 (total - length raw) ++ raw else raw in
    let sum := be_to_N (firstn 1 (sha256 entBytes)) in
    let d := shl1_8_minus cs in
    if d =? 0 then Panic "division by zero" else
    if sum / d =? csBig then Ret None else Ret (Some ErrChecksumIncorrect)
  end.

Definition CheckMnemonic := CheckMnemonic_gen true.

Definition IsMnemonicValid (m : list byte) : outcome bool :=
  omap (fun e => match e with None => true | Some _ => false end) (CheckMnemonic m).

(* ---------- bip39.go: MnemonicToSeed ---------- *)
Definition MnemonicToSeed (mnemonic passphrase : list byte) : list byte :=
  let password := lib mnemonic in
  let salt := lib (seed_prefix ++ passphrase) in
  pbkdf2_hmac_sha512 password salt seed_iter (N.to_nat seed_keylen).
End Check.

(* ---------- lang.go: Language.mapping(), pure reading (see State.v for the once/maps state machine) ---------- *)
(* Go map built by assigning m[word] = idx in table order: the LAST occurrence wins *)
Fixpoint last_index_from (w : list byte) (t : table) (i : N) (acc : option N) : option N :=
  match t with
  | [] => acc
  | x :: r => last_index_from w r (i + 1) (if bytes_eqb x w then Some i else acc)
  end.
Definition map_get (m : option table) (w : list byte) : option N :=
  match m with None => None | Some t => last_index_from w t 0 None end.

Definition mapping_pure (lan : Z) : option table :=
  match find (fun c => Z.eqb (mc_value c) lan) mapping_cases with
  | Some c => Some (mc_table c)
  | None => None
  end.

(* ---------- language_string.go: Language.String() ---------- *)
Definition bytes_of_string (s : string) : list byte := list_byte_of_string s.
Definition itoa (z : Z) : list byte :=
  bytes_of_string (DecimalString.NilZero.string_of_int (Z.to_int z)).

Definition nth_z {A} (l : list A) (i : Z) : option A :=
  if (i <? 0)%Z then None else nth_error l (Z.to_nat i).

Definition String_ (i : Z) : outcome (list byte) :=
  if stringer_guard i
  then Ret (bytes_of_string "Language(" ++ itoa i ++ bytes_of_string ")")
  else match nth_z _Language_index i, nth_z _Language_index (i + 1) with
       | Some lo, Some hi =>
         if ((0 <=? lo) && (lo <=? hi) && (hi <=? Z.of_nat (length _Language_name)))%Z
         then Ret (firstn (Z.to_nat (hi - lo)) (skipn (Z.to_nat lo) _Language_name))
         else Panic "slice bounds out of range"
       | _, _ => Panic "index out of range"
       end.
