(* Types of the data that tools/go2coq regenerates from /repo on every run
   (coq/Gen/*.v).  Hand-written, stable; no proofs here. *)
From B39 Require Import Lib.Base.

(* ---- errors returned by the package ---- *)
Inductive ioerr := IoEOF | IoUnexpectedEOF | IoOther (tag : N).

Inductive error :=
| ErrWordLen
| ErrEntropyLen
| ErrChecksumIncorrect
| ErrUnknownWord (tok : list byte) (pos : nat)   (* fmt.Errorf("word `%s` at `%d` not found ...") *)
| ErrIO (e : ioerr)                               (* whatever io.ReadFull returned *)
| ErrFresh (msg : string).                        (* an errors.New value that is not one of the sentinels *)

Definition table := list (list byte).

(* ---- one case of the switch in Language.list() ---- *)
Record list_case := {
  lc_value : Z;            (* value of the case constant *)
  lc_const : string;       (* its identifier *)
  lc_var   : string;       (* wordlist.<Var> returned *)
  lc_table : table         (* that variable's contents *)
}.

(* ---- one case of the switch in Language.mapping() ----
   <once>.Do(func() { <made> = make(map[string]int64, n)
                      for idx, word := range wordlist.<ranged> { <indexed>[<key>] = <val> } })
   return <ret> *)
Record mapping_case := {
  mc_value   : Z;
  mc_const   : string;
  mc_once    : string;      (* sync.Once variable whose Do guards the closure *)
  mc_made    : string;      (* variable assigned by make(...) *)
  mc_ranged  : string;      (* wordlist variable ranged over *)
  mc_table   : table;       (* its contents *)
  mc_indexed : string;      (* map variable written in the loop *)
  mc_key_is_word : bool;    (* the key expression is the range value *)
  mc_val_is_idx  : bool;    (* the stored value is int64(range key) *)
  mc_ret     : string       (* variable returned after Do *)
}.

(* ---- package-level variable inventory ---- *)
Record pkg_var := {
  pv_name : string;
  pv_file : string;
  pv_type : string;         (* declared type text, "" if inferred *)
  pv_init : string;         (* initializer expression, import paths resolved, "" if none *)
  pv_writes : list (string * bool)  (* (enclosing function, inside a once.Do closure) for every write site *)
}.

(* ---- update-wordlist template (text/template/parse tree) ---- *)
Inductive tpipe := PDot | PField (name : string) | POther (src : string).
Inductive tnode :=
| TText (s : list byte)
| TAction (p : tpipe)
| TIf (p : tpipe) (th el : list tnode)
| TRange (p : tpipe) (body el : list tnode)
| TUnsupported (src : string).
