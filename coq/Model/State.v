(* The package's only cross-call state: ten sync.Once values and ten map
   variables (lang.go), interpreted from the GENERATED mapping() table, and the
   API as a state machine over it.  No proofs in this file. *)
From B39 Require Import Lib.Base Lib.Nfkd Model.GenTypes Model.Model.
From B39 Require Import Gen.Lang Gen.Gates.
Local Open Scope N_scope.

(* a Go map[string]int64 as an association list, newest binding first *)
Definition gomap := list (list byte * N).
Fixpoint gomap_get (m : gomap) (w : list byte) : option N :=
  match m with
  | [] => None
  | (k, v) :: r => if bytes_eqb k w then Some v else gomap_get r w
  end.

Record pstate := {
  st_done : list string;              (* sync.Once variables whose Do has completed *)
  st_maps : list (string * gomap)     (* map variables that are non-nil; newest binding first *)
}.
Definition init_state : pstate := {| st_done := []; st_maps := [] |}.

Definition str_mem (x : string) (l : list string) : bool := existsb (String.eqb x) l.
Fixpoint var_get (ms : list (string * gomap)) (v : string) : option gomap :=
  match ms with
  | [] => None
  | (k, m) :: r => if String.eqb k v then Some m else var_get r v
  end.
Definition var_set (ms : list (string * gomap)) (v : string) (m : gomap) := (v, m) :: ms.

(* the closure body: for idx, word := range table { indexed[word] = int64(idx) } *)
Fixpoint fill (c : mapping_case) (ms : list (string * gomap)) (t : table) (i : N) : outcome (list (string * gomap)) :=
  match t with
  | [] => Ret ms
  | w :: r =>
    match var_get ms (mc_indexed c) with
    | None => Panic "assignment to entry in nil map"
    | Some m =>
      let key := if mc_key_is_word c then w else [] in
      let val := if mc_val_is_idx c then i else 0 in
      fill c (var_set ms (mc_indexed c) ((key, val) :: m)) r (i + 1)
    end
  end.

(* Language.mapping(): returns the new state and the map (None = nil) *)
Definition mapping_st (s : pstate) (lan : Z) : outcome (pstate * option gomap) :=
  match find (fun c => Z.eqb (mc_value c) lan) mapping_cases with
  | None => Ret (s, None)
  | Some c =>
    if str_mem (mc_once c) (st_done s) then Ret (s, var_get (st_maps s) (mc_ret c))
    else
      match fill c (var_set (st_maps s) (mc_made c) []) (mc_table c) 0 with
      | Panic w => Panic w
      | Ret ms => Ret ({| st_done := mc_once c :: st_done s; st_maps := ms |}, var_get ms (mc_ret c))
      end
  end.

Definition gomap_lookup (m : option gomap) (w : list byte) : option N :=
  match m with None => None | Some g => gomap_get g w end.

(* ---------- the API as operations ---------- *)
Inductive op :=
| OpEntropy (ent : list byte) (lang : Z)
| OpNew (n : Z) (lang : Z) (s : script)
| OpCheck (m : list byte) (lang : Z)
| OpValid (m : list byte) (lang : Z)
| OpSeed (m p : list byte)
| OpString (lang : Z).

Inductive result :=
| REntropy (r : outcome (list byte * option error))
| RNew (r : outcome (list byte * option error)) (rest : script)
| RCheck (r : outcome (option error))
| RValid (r : outcome bool)
| RSeed (r : list byte)
| RString (r : outcome (list byte)).

Section Api.
Variable lib : list byte -> list byte.

(* a panic inside mapping() propagates; the state is then left as it was (the
   history model stops being compared at the first panic anyway) *)
Definition api_step (s : pstate) (o : op) : pstate * result :=
  match o with
  | OpEntropy ent l => (s, REntropy (NewMnemonicByEntropy ent l))
  | OpNew n l sc => let '(r, rest) := NewMnemonic n l sc in (s, RNew r rest)
  | OpSeed m p => (s, RSeed (MnemonicToSeed lib m p))
  | OpString l => (s, RString (String_ l))
  | OpCheck m l =>
    (* mapping() is called after the count gate in the Go code; an early
       return leaves the state untouched *)
    let toks := split_at (fun b => Byte.eqb b x20) (lib m) in
    if gate_count (Z.of_nat (length toks)) then (s, RCheck (Ret (Some gate_count_err)))
    else match mapping_st s l with
         | Panic w => (s, RCheck (Panic w))
         | Ret (s', mp) => (s', RCheck (CheckMnemonic lib (gomap_lookup mp) m))
         end
  | OpValid m l =>
    let toks := split_at (fun b => Byte.eqb b x20) (lib m) in
    if gate_count (Z.of_nat (length toks)) then (s, RValid (Ret false))
    else match mapping_st s l with
         | Panic w => (s, RValid (Panic w))
         | Ret (s', mp) => (s', RValid (IsMnemonicValid lib (gomap_lookup mp) m))
         end
  end.

(* what each call returns when run alone in a fresh process, with no state at all *)
Definition pure (o : op) : result :=
  match o with
  | OpEntropy ent l => REntropy (NewMnemonicByEntropy ent l)
  | OpNew n l sc => let '(r, rest) := NewMnemonic n l sc in RNew r rest
  | OpSeed m p => RSeed (MnemonicToSeed lib m p)
  | OpString l => RString (String_ l)
  | OpCheck m l => RCheck (CheckMnemonic lib (map_get (mapping_pure l)) m)
  | OpValid m l => RValid (IsMnemonicValid lib (map_get (mapping_pure l)) m)
  end.

Fixpoint run (s : pstate) (ops : list op) : list result :=
  match ops with
  | [] => []
  | o :: r => let '(s', res) := api_step s o in res :: run s' r
  end.
End Api.
