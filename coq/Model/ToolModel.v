(* Model of update-wordlist/main.go (the generator of internal/wordlist/*.go):
   - html_escape : html/template's escaper for the HTML text context;
   - exec_node / exec_seq : an interpreter of the parsed template (Gen/Tool.v) over
     the data record {Variable string; WordList []string};
   - render : strings.Split(src, "\n") followed by the template execution;
   - go_list_literal : an independent reader of the generated file, following Go's
     lexical rules on the restricted shape
        [comments] package wordlist NEWLINE var IDENT = []string{ "lit", ... }
   Definitions only; everything is computable by vm_compute.  No proofs here. *)
From B39 Require Import Lib.Base Lib.Utf8 Lib.TableWF Model.GenTypes Gen.Tool.

Definition bs (s : string) : list byte := list_byte_of_string s.

(* ------------------------------------------------------------------ *)
(* html/template, HTML text context: htmlEscaper = htmlReplacer(s, htmlReplacementTable, badRunes=true).
   Every byte < 0x80 is looked up in the table; bytes >= 0x80 (parts of multi-byte or of
   invalid sequences) are copied unchanged because badRunes = true. *)
Definition esc_byte (b : byte) : list byte :=
  if Byte.eqb b x00 then [xef; xbf; xbd]            (* U+FFFD *)
  else if Byte.eqb b x22 then bs "&#34;"%string
  else if Byte.eqb b x27 then bs "&#39;"%string
  else if Byte.eqb b x26 then bs "&amp;"%string
  else if Byte.eqb b x2b then bs "&#43;"%string
  else if Byte.eqb b x3c then bs "&lt;"%string
  else if Byte.eqb b x3e then bs "&gt;"%string
  else [b].

Fixpoint html_escape (s : list byte) : list byte :=
  match s with
  | [] => []
  | b :: r => esc_byte b ++ html_escape r
  end.

(* ------------------------------------------------------------------ *)
(* template interpreter *)
Record tdata := { td_variable : list byte; td_wordlist : list (list byte) }.

Definition oapp (a b : option (list byte)) : option (list byte) :=
  match a, b with Some x, Some y => Some (x ++ y) | _, _ => None end.

Definition exec_seq (f : tnode -> option (list byte)) : list tnode -> option (list byte) :=
  fix go (ns : list tnode) : option (list byte) :=
    match ns with [] => Some [] | n :: r => oapp (f n) (go r) end.

Fixpoint range_loop (f : list byte -> option (list byte)) (ws : list (list byte)) : option (list byte) :=
  match ws with [] => Some [] | w :: r => oapp (f w) (range_loop f r) end.

(* dot = None : the top-level record; dot = Some w : a WordList element (a string) *)
Fixpoint exec_node (d : tdata) (dot : option (list byte)) (n : tnode) {struct n} : option (list byte) :=
  match n with
  | TText s => Some s
  | TAction p =>
      match dot, p with
      | None, PField name =>
          if String.eqb name "Variable"%string then Some (html_escape (td_variable d)) else None
      | Some w, PDot => Some (html_escape w)
      | _, _ => None
      end
  | TIf p th el =>
      match dot, p with
      | Some w, PDot =>                       (* truth of a string: len > 0 *)
          if is_nil w then exec_seq (exec_node d dot) el else exec_seq (exec_node d dot) th
      | _, _ => None
      end
  | TRange p body el =>
      match dot, p with
      | None, PField name =>
          if String.eqb name "WordList"%string then
            match td_wordlist d with
            | [] => exec_seq (exec_node d dot) el
            | ws => range_loop (fun w => exec_seq (exec_node d (Some w)) body) ws
            end
          else None
      | _, _ => None
      end
  | TUnsupported _ => None
  end.

(* html/template chooses the escaper from the context reached by the literal text.
   The context stays "HTML text" (escaper = htmlEscaper) as long as no text node contains '<'. *)
Definition no_lt (s : list byte) : bool := forallb (fun b => negb (Byte.eqb b x3c)) s.

Fixpoint text_ctx_ok (n : tnode) {struct n} : bool :=
  match n with
  | TText s => no_lt s
  | TAction _ => true
  | TIf _ th el => forallb text_ctx_ok th && forallb text_ctx_ok el
  | TRange _ body el => forallb text_ctx_ok body && forallb text_ctx_ok el
  | TUnsupported _ => false
  end.

Definition is_nl (b : byte) : bool := Byte.eqb b x0a.

Definition render (var : list byte) (src : list byte) : option (list byte) :=
  if bytes_eqb tool_split_sep [x0a] && forallb text_ctx_ok tool_template then
    exec_seq (exec_node {| td_variable := var;
                           td_wordlist := split_at (fun b => Byte.eqb b x0a) src |} None)
             tool_template
  else None.

(* ------------------------------------------------------------------ *)
(* reader of the generated Go file *)

(* white space that never triggers automatic semicolon insertion: space, tab, CR *)
Definition hspace (b : byte) : bool := Byte.eqb b x20 || Byte.eqb b x09 || Byte.eqb b x0d.
(* all Go white space *)
Definition wspace (b : byte) : bool := hspace b || Byte.eqb b x0a.

Fixpoint skip_hs (s : list byte) : list byte :=
  match s with b :: r => if hspace b then skip_hs r else s | [] => [] end.
Fixpoint skip_ws (s : list byte) : list byte :=
  match s with b :: r => if wspace b then skip_ws r else s | [] => [] end.

(* at least one horizontal space (separates a keyword from the next identifier) *)
Definition skip_hs1 (s : list byte) : option (list byte) :=
  match s with b :: r => if hspace b then Some (skip_hs r) else None | [] => None end.

(* white space, newlines and // line comments; in_comment = inside a // comment *)
Fixpoint skip_wsc (in_comment : bool) (s : list byte) : list byte :=
  match s with
  | [] => []
  | b :: r =>
      if in_comment then (if Byte.eqb b x0a then skip_wsc false r else skip_wsc true r)
      else if wspace b then skip_wsc false r
      else if Byte.eqb b x2f then
        match r with
        | c :: r' => if Byte.eqb c x2f then skip_wsc true r' else s
        | [] => s
        end
      else s
  end.

Fixpoint expect (p s : list byte) : option (list byte) :=
  match p, s with
  | [], _ => Some s
  | x :: p', y :: s' => if Byte.eqb x y then expect p' s' else None
  | _ :: _, [] => None
  end.

Definition is_upper (b : byte) : bool := (65 <=? Byte.to_N b)%N && (Byte.to_N b <=? 90)%N.
Definition is_lower (b : byte) : bool := (97 <=? Byte.to_N b)%N && (Byte.to_N b <=? 122)%N.
Definition is_digit (b : byte) : bool := (48 <=? Byte.to_N b)%N && (Byte.to_N b <=? 57)%N.
Definition ident_start (b : byte) : bool := is_upper b || is_lower b || Byte.eqb b x5f.
Definition ident_char (b : byte) : bool := ident_start b || is_digit b.

(* longest run of identifier characters *)
Fixpoint read_ident (s : list byte) : list byte * list byte :=
  match s with
  | b :: r => if ident_char b then (let (i, t) := read_ident r in (b :: i, t)) else ([], s)
  | [] => ([], [])
  end.

Definition go_keywords : list (list byte) :=
  map bs ["break"%string; "case"%string; "chan"%string; "const"%string; "continue"%string; "default"%string; "defer"%string; "else"%string; "fallthrough"%string; "for"%string; "func"%string; "go"%string; "goto"%string; "if"%string; "import"%string; "interface"%string; "map"%string; "package"%string; "range"%string; "return"%string; "select"%string; "struct"%string; "switch"%string; "type"%string; "var"%string].

(* an (ASCII) Go identifier that is not a keyword *)
Definition go_ident (v : list byte) : bool :=
  match v with
  | [] => false
  | b :: _ => ident_start b && forallb ident_char v && negb (memb v go_keywords)
  end.

(* bytes allowed, taken literally, inside an interpreted string literal "..." :
   not the closing quote, no escape, no newline, no NUL *)
Definition lit_byte_ok (b : byte) : bool :=
  negb (Byte.eqb b x22 || Byte.eqb b x5c || Byte.eqb b x0a || Byte.eqb b x00).

(* after the opening quote: the contents up to the closing quote, and what follows it *)
Fixpoint read_string (s : list byte) : option (list byte * list byte) :=
  match s with
  | [] => None
  | b :: r =>
      if Byte.eqb b x22 then Some ([], r)
      else if lit_byte_ok b then
        match read_string r with Some (l, t) => Some (b :: l, t) | None => None end
      else None
  end.

(* the elements of the composite literal, after "{" :
     ( ws* "lit" hs* "," )*  ws* "}" ws* EOF
   the comma must come before any newline (a newline after a string literal is a semicolon) *)
Fixpoint read_items (fuel : nat) (s : list byte) : option (list (list byte)) :=
  match fuel with
  | O => None
  | S f =>
      match skip_ws s with
      | [] => None
      | b :: r =>
          if Byte.eqb b x7d then (if forallb wspace r then Some [] else None)
          else if Byte.eqb b x22 then
            match read_string r with
            | None => None
            | Some (lit, r1) =>
                match skip_hs r1 with
                | c :: r2 =>
                    if Byte.eqb c x2c then
                      match read_items f r2 with Some l => Some (lit :: l) | None => None end
                    else None
                | [] => None
                end
            end
          else None
      end
  end.

(* [comments / blank lines] package hs+ wordlist hs* NEWLINE [comments / blank lines] var hs+ *)
Definition go_prelude (s : list byte) : option (list byte) :=
  match expect (bs "package"%string) (skip_wsc false s) with None => None | Some s1 =>
  match skip_hs1 s1 with None => None | Some s2 =>
  match expect (bs "wordlist"%string) s2 with None => None | Some s3 =>
  match skip_hs s3 with
  | b :: s4 =>
      if Byte.eqb b x0a then
        match expect (bs "var"%string) (skip_wsc false s4) with None => None | Some s5 => skip_hs1 s5 end
      else None
  | [] => None
  end end end end.

(* hs* = hs* []string{ items *)
Definition go_init (fuel : nat) (s1 : list byte) : option (list (list byte)) :=
  match expect (bs "="%string) (skip_hs s1) with None => None | Some s2 =>
  match expect (bs "[]string{"%string) (skip_hs s2) with None => None | Some s3 =>
  read_items fuel s3
  end end.

(* IDENT hs* = hs* []string{ items *)
Definition go_decl (fuel : nat) (s : list byte) : option (list byte * list (list byte)) :=
  let (id, s1) := read_ident s in
  if go_ident id then
    match go_init fuel s1 with Some l => Some (id, l) | None => None end
  else None.

(* the lexical shape alone *)
Definition go_list_literal_lex (s : list byte) : option (list byte * list (list byte)) :=
  match go_prelude s with
  | Some r => go_decl (S (length s)) r
  | None => None
  end.

(* Go source text must be valid UTF-8 ("illegal UTF-8 encoding") and must not contain a byte
   order mark U+FEFF = EF BB BF except as the very first bytes ("illegal byte order mark");
   the tool never writes one first, so a BOM is rejected anywhere. *)
Definition bom : list byte := [xef; xbb; xbf].
Definition go_source_text_ok (s : list byte) : bool := utf8_valid s && negb (has_sub bom s).

Definition go_list_literal (s : list byte) : option (list byte * list (list byte)) :=
  if go_source_text_ok s then go_list_literal_lex s else None.
