(* language_string.go: for EVERY integer, Language.String() is the declared
   identifier of the constant with that value, or "Language(N)". *)
From Coq Require Import ZifyBool ZifyNat ZifyN.
From B39 Require Import Lib.Base Model.GenTypes Model.Model Gen.Lang Gen.Stringer Proofs.Tables.

Definition declared_name (i : Z) : option string :=
  match find (fun c => Z.eqb (snd c) i) lang_consts with Some c => Some (fst c) | None => None end.

Definition String_spec (i : Z) : list byte :=
  match declared_name i with
  | Some s => bytes_of_string s
  | None => bytes_of_string "Language(" ++ itoa i ++ bytes_of_string ")"
  end.

Definition out_eqb (a b : outcome (list byte)) : bool :=
  match a, b with Ret x, Ret y => bytes_eqb x y | _, _ => false end.

(* a window of values that contains every declared constant: checked by computation *)
Definition window : list Z := map (fun n => (Z.of_nat n - 8)%Z) (seq 0 72).

Lemma window_check : forallb (fun i => out_eqb (String_ i) (Ret (String_spec i))) window = true.
Proof. vm_compute. reflexivity. Qed.

Lemma consts_in_window : forallb (fun c => ((-8 <=? snd c) && (snd c <? 64))%Z) lang_consts = true.
Proof. vm_compute. reflexivity. Qed.

Lemma in_window i : (-8 <= i < 64)%Z -> In i window.
Proof.
  intros H. unfold window. apply in_map_iff. exists (Z.to_nat (i + 8)). split; [lia|]. apply in_seq. lia.
Qed.

(* outside the window the generated guard sends every value to the fallback *)
Lemma guard_outside i : ~ (-8 <= i < 64)%Z -> stringer_guard i = true.
Proof. unfold stringer_guard. lia. Qed.

Lemma declared_outside i : ~ (-8 <= i < 64)%Z -> declared_name i = None.
Proof.
  intros H. unfold declared_name. destruct (find _ lang_consts) as [c|] eqn:E; [|reflexivity].
  apply find_some in E as [Hin Hv]. apply Z.eqb_eq in Hv.
  pose proof consts_in_window as K. rewrite forallb_forall in K. specialize (K _ Hin). lia.
Qed.

Theorem String_correct (i : Z) : String_ i = Ret (String_spec i).
Proof.
  destruct (Z_le_dec (-8) i) as [H1|H1]; [destruct (Z_lt_dec i 64) as [H2|H2]|].
  - pose proof window_check as K. rewrite forallb_forall in K. specialize (K i (in_window i (conj H1 H2))).
    unfold out_eqb in K. destruct (String_ i) as [x|]; [|discriminate]. apply bytes_eqb_eq in K. rewrite K. reflexivity.
  - unfold String_, String_spec. rewrite guard_outside, declared_outside by lia. reflexivity.
  - unfold String_, String_spec. rewrite guard_outside, declared_outside by lia. reflexivity.
Qed.

Lemma declared_name_supported name l : supported name l -> declared_name l = Some name.
Proof.
  intros Hs. assert (K : forallb (fun c => match declared_name (snd c) with Some s => String.eqb s (fst c) | None => false end) lang_consts = true)
    by (vm_compute; reflexivity).
  rewrite forallb_forall in K. specialize (K _ Hs). cbn [fst snd] in K.
  destruct (declared_name l) as [s|]; [|discriminate]. apply String.eqb_eq in K. rewrite K. reflexivity.
Qed.

Lemma declared_name_unsupported l : (forall name, ~ supported name l) -> declared_name l = None.
Proof.
  intros Hn. unfold declared_name. destruct (find _ lang_consts) as [[nm v]|] eqn:E; [|reflexivity].
  apply find_some in E as [Hin Hv]. cbn [snd] in Hv. apply Z.eqb_eq in Hv. subst v. exfalso. exact (Hn nm Hin).
Qed.

Lemma names_nonempty_distinct :
  Forall (fun c => fst c <> ""%string) lang_consts /\ NoDup (map (fun c => bytes_of_string (fst c)) lang_consts).
Proof.
  split.
  - repeat constructor; cbn; discriminate.
  - apply nodupb_NoDup. vm_compute. reflexivity.
Qed.
