(* C17, last clause: run on the ten canonical upstream files the generator reproduces the lists
   the package is built from (list_of l, equal to the committed tables by C08). *)
From B39 Require Import Lib.Base Lib.Utf8 Lib.TableWF Model.GenTypes Model.Model Model.ToolModel Gen.Lang Gen.Tool.
From B39 Require Import Spec.Bip39Spec Facts.CanonDigest Proofs.Tables Proofs.Tool.

Notation nl := (fun b : byte => Byte.eqb b x0a).

(* the upstream file of a table: one word per line, LF-terminated; splitting it on LF gives the words and a
   final empty piece *)
Lemma split_file ws : Forall (fun w => forallb (fun b => negb (nl b)) w = true) ws ->
  split_at nl (file_of ws) = ws ++ [[]].
Proof.
  induction 1 as [|w rest Hw _ IH]; [reflexivity|].
  unfold file_of in *. cbn [flat_map]. rewrite <- app_assoc.
  rewrite split_at_app_nosep by exact Hw. cbn [app split_at]. rewrite byte_eqb_refl. rewrite IH. rewrite app_nil_r. reflexivity.
Qed.

(* every canonical word is inside the generator's domain (computed: 10 x 2048 words) *)
Lemma canon_words_in_domain :
  forallb (fun t => forallb (fun w => tool_line_ok w && negb (is_nil w)) (snd t)) canon_tables = true.
Proof. vm_compute. reflexivity. Qed.

Lemma canon_idents_ok : forallb (fun t => ident_ok (bytes_of_string (fst t))) canon_tables = true.
Proof. vm_compute. reflexivity. Qed.

Lemma canon_in_tables name l : supported name l -> In (name, canon name) canon_tables.
Proof.
  intros Hs.
  assert (K : forallb (fun c => existsb (fun t => String.eqb (fst t) (fst c) && table_eqb (snd t) (canon (fst c))) canon_tables) lang_consts = true)
    by (vm_compute; reflexivity).
  rewrite forallb_forall in K. specialize (K _ Hs). apply existsb_exists in K as [[nm t] [Hin E]]. cbn [fst snd] in E.
  apply andb_prop in E as [E1 E2]. apply String.eqb_eq in E1. apply table_eqb_eq in E2. subst. exact Hin.
Qed.

Theorem tool_reproduces_lists name l : supported name l ->
  exists out, render (bytes_of_string name) (file_of (canon name)) = Some out /\
              go_list_literal out = Some (bytes_of_string name, list_of l).
Proof.
  intros Hs. pose proof (canon_in_tables name l Hs) as Hin.
  pose proof canon_words_in_domain as D. rewrite forallb_forall in D. specialize (D _ Hin). cbn [snd] in D. rewrite forallb_forall in D.
  pose proof canon_idents_ok as I. rewrite forallb_forall in I. specialize (I _ Hin). cbn [fst] in I.
  assert (Hnl : Forall (fun w => forallb (fun b => negb (nl b)) w = true) (canon name)).
  { apply Forall_forall. intros w Hw. specialize (D w Hw). apply andb_prop in D as [D _].
    unfold tool_line_ok in D. apply andb_prop in D as [D _]. apply andb_prop in D as [D _].
    unfold tool_word_ok in D. rewrite forallb_forall in D. apply forallb_forall. intros b Hb. specialize (D b Hb).
    unfold bad_byte in D. destruct (Byte.eqb b x0a) eqn:E; [|reflexivity].
    apply byte_eqb_eq in E. subst b. vm_compute in D. discriminate. }
  destruct (tool_faithful (bytes_of_string name) (file_of (canon name)) I) as [out [Hr Hg]].
  - rewrite (split_file _ Hnl). apply Forall_app. split; [|constructor; [vm_compute; reflexivity|constructor]].
    apply Forall_forall. intros w Hw. specialize (D w Hw). apply andb_prop in D as [D _]. exact D.
  - exists out. split; [exact Hr|]. rewrite Hg. f_equal. f_equal.
    rewrite (split_file _ Hnl), filter_app. cbn [filter is_nil negb app]. rewrite app_nil_r.
    rewrite (list_of_canon name l Hs).
    clear -D. induction (canon name) as [|w r IH]; [reflexivity|]. cbn [filter].
    assert (Hw : negb (is_nil w) = true) by (specialize (D w (or_introl eq_refl)); apply andb_prop in D as [_ D]; exact D).
    rewrite Hw. f_equal. apply IH. intros x Hx. apply D. right. exact Hx.
Qed.
