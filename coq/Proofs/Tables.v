(* What the GENERATED switch tables of lang.go say, as facts computed on the
   current source and lifted to every Language value. *)
From B39 Require Import Lib.Base Lib.Utf8 Lib.Nfkd Lib.TableWF Model.GenTypes Model.Model Gen.Lang Facts.Registry Spec.Bip39Spec.

(* name is the declared identifier of the Language constant with value l *)
Definition supported (name : string) (l : Z) : Prop := In (name, l) lang_consts.

(* ---------- every table list() can return is a registered, well-formed table ---------- *)
Definition list_tables : list table := map lc_table list_cases ++ [list_default].

Lemma list_of_in l : In (list_of l) list_tables.
Proof.
  unfold list_of, list_tables. destruct (find _ list_cases) as [c|] eqn:E.
  - apply find_some in E as [Hin _]. apply in_or_app. left. apply in_map. exact Hin.
  - apply in_or_app. right. left. reflexivity.
Qed.

Lemma list_tables_registered : forallb (fun t => existsb (table_eqb t) registry) list_tables = true.
Proof. vm_compute. reflexivity. Qed.

Theorem list_of_ok l : table_ok (list_of l) = true.
Proof.
  pose proof list_tables_registered as R. rewrite forallb_forall in R. specialize (R _ (list_of_in l)).
  apply existsb_exists in R as [t [Hin Heq]]. apply table_eqb_eq in Heq. rewrite Heq.
  pose proof registry_ok as K. rewrite forallb_forall in K. apply K. exact Hin.
Qed.

(* ---------- unpacking table_ok ---------- *)
Section Unpack.
Variable t : table.
Hypothesis H : table_ok t = true.

Lemma tok_length : length t = 2048%nat.
Proof. unfold table_ok in H. apply andb_prop in H as [H1 _]. apply andb_prop in H1 as [H1 _]. apply Nat.eqb_eq in H1. exact H1. Qed.
Lemma tok_nodup : NoDup t.
Proof. unfold table_ok in H. apply andb_prop in H as [H1 _]. apply andb_prop in H1 as [_ H1]. apply nodup_fast_NoDup. exact H1. Qed.
Lemma tok_words w : In w t -> word_ok w = true.
Proof. unfold table_ok in H. apply andb_prop in H as [_ H2]. rewrite forallb_forall in H2. apply H2. Qed.
End Unpack.

Section UnpackWord.
Variable w : list byte.
Hypothesis H : word_ok w = true.
Ltac split_all := repeat match goal with K : (_ && _) = true |- _ => apply andb_prop in K; destruct K end.
Lemma wok_nonempty : w <> [].
Proof. unfold word_ok in H. split_all. destruct w; [discriminate|discriminate]. Qed.
Lemma wok_valid : utf8_valid w = true.
Proof. unfold word_ok in H. split_all. assumption. Qed.
Lemma wok_nfkd : nfkd w = w.
Proof. unfold word_ok in H. split_all. apply bytes_eqb_eq. assumption. Qed.
Lemma wok_roundtrip : utf8_encode (utf8_decode w) = w.
Proof. unfold word_ok in H. split_all. apply bytes_eqb_eq. assumption. Qed.
Lemma wok_nospace : forallb (fun b => negb (Byte.eqb b x20)) w = true.
Proof. unfold word_ok in H. split_all. assumption. Qed.
Lemma wok_nou3000 : has_sub u3000 w = false.
Proof. unfold word_ok in H. split_all. apply negb_true_iff. assumption. Qed.
Lemma wok_nocgj : has_cgj w = false.
Proof. unfold word_ok in H. split_all. apply negb_true_iff. assumption. Qed.
Lemma wok_xsafe : xsafe_cps (utf8_decode w) = true.
Proof. unfold word_ok in H. split_all. assumption. Qed.
Lemma wok_nospacecp : forallb (fun c => negb (is_space_cp c)) (utf8_decode w) = true.
Proof. unfold word_ok in H. split_all. assumption. Qed.
End UnpackWord.

(* ---------- canonicity: each supported language selects its canonical list ---------- *)
Lemma canon_eq_all : forallb (fun c => table_eqb (list_of (snd c)) (canon (fst c))) lang_consts = true.
Proof. vm_compute. reflexivity. Qed.

Theorem list_of_canon name l : supported name l -> list_of l = canon name.
Proof.
  intros Hs. pose proof canon_eq_all as K. rewrite forallb_forall in K. specialize (K _ Hs).
  apply table_eqb_eq in K. exact K.
Qed.

(* ---------- mapping(): supported languages get the map of their own list, all others nil ---------- *)
Lemma mapping_eq_all :
  forallb (fun c => match mapping_pure (snd c) with Some t => table_eqb t (list_of (snd c)) | None => false end) lang_consts = true.
Proof. vm_compute. reflexivity. Qed.

Theorem mapping_supported name l : supported name l -> mapping_pure l = Some (list_of l).
Proof.
  intros Hs. pose proof mapping_eq_all as K. rewrite forallb_forall in K. specialize (K _ Hs). cbn [snd] in K.
  destruct (mapping_pure l) as [t|]; [|discriminate]. apply table_eqb_eq in K. rewrite K. reflexivity.
Qed.

Lemma mapping_values_declared :
  forallb (fun c => existsb (fun k => Z.eqb (snd k) (mc_value c)) lang_consts) mapping_cases = true.
Proof. vm_compute. reflexivity. Qed.

Theorem mapping_unsupported l : (forall name, ~ supported name l) -> mapping_pure l = None.
Proof.
  intros Hn. unfold mapping_pure. destruct (find _ mapping_cases) as [c|] eqn:E; [|reflexivity].
  apply find_some in E as [Hin Hv]. apply Z.eqb_eq in Hv.
  pose proof mapping_values_declared as K. rewrite forallb_forall in K. specialize (K _ Hin).
  apply existsb_exists in K as [[nm v] [Hk He]]. cbn [snd] in He. apply Z.eqb_eq in He.
  exfalso. apply (Hn nm). unfold supported. rewrite <- Hv, <- He. exact Hk.
Qed.

(* the constant block: ten constants, distinct names, distinct values *)
Lemma lang_consts_facts :
  length lang_consts = 10%nat /\ NoDup (map fst lang_consts) /\ NoDup (map snd lang_consts).
Proof.
  split; [reflexivity|]. split.
  - repeat constructor; cbn; intuition discriminate.
  - repeat constructor; cbn; intuition discriminate.
Qed.

(* a Language value either is one of the declared constants or is not *)
Lemma classic_supported l : (exists name, supported name l) \/ (forall name, ~ supported name l).
Proof.
  destruct (find (fun c => Z.eqb (snd c) l) lang_consts) as [[nm v]|] eqn:E.
  - left. apply find_some in E as [Hin Hv]. cbn [snd] in Hv. apply Z.eqb_eq in Hv. subst v. exists nm. exact Hin.
  - right. intros name Hs. pose proof (find_none _ _ E _ Hs) as K. cbn [snd] in K. rewrite Z.eqb_refl in K. discriminate.
Qed.
