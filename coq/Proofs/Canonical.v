(* Consequences of the idempotence of NFKD: a (valid UTF-8) string and its NFKD form are interchangeable. *)
From B39 Require Import Lib.Base Lib.Utf8 Lib.Nfkd Model.GenTypes Model.Model Spec.Bip39Spec.
From B39 Require Import Proofs.LibContract Proofs.Sound Proofs.Api Proofs.Seed Proofs.Idem.

Section Lib.
Variable lib : list byte -> list byte.
Hypothesis Hlib : lib_contract lib.

Theorem normalised_form_same_verdict s l : utf8_valid s = true ->
  (CheckMnemonicL lib (nfkd s) l = Ret None <-> CheckMnemonicL lib s l = Ret None).
Proof.
  intros Hv. apply (same_nfkd_same_verdict lib Hlib); [exact (proj2 (nfkd_idem s Hv))|exact Hv|exact (proj1 (nfkd_idem s Hv))].
Qed.

Theorem normalised_form_same_seed m p : utf8_valid m = true -> utf8_valid p = true ->
  xsafe m = true -> xsafe p = true ->
  MnemonicToSeed lib (nfkd m) (nfkd p) = MnemonicToSeed lib m p.
Proof.
  intros Hm Hp Xm Xp. symmetry.
  apply (seed_same_nfkd lib Hlib); [exact Hm|exact Hp|exact (proj2 (nfkd_idem m Hm))|exact (proj2 (nfkd_idem p Hp))|symmetry; exact (proj1 (nfkd_idem m Hm))|symmetry; exact (proj1 (nfkd_idem p Hp))|exact Xm|exact Xp].
Qed.
End Lib.
