(* C14: no panic site of the panic-aware model is reachable, whatever the arguments
   and whatever the history: every table index, slice bound, big.Int division and
   make() length that the Go code evaluates is in range. *)
From Coq Require Import ZifyBool ZifyNat ZifyN.
From B39 Require Import Lib.Base Lib.Sha256 Lib.Pbkdf2 Lib.TableWF Model.GenTypes Model.Model Model.State.
From B39 Require Import Gen.Lang Gen.Body Gen.Gates Facts.Registry Spec.Bip39Spec.
From B39 Require Import Proofs.Gates Proofs.Tables Proofs.Encode Proofs.Validate Proofs.Roundtrip Proofs.Sound Proofs.Reader Proofs.Stringer Proofs.History.
Ltac Zify.zify_post_hook ::= Z.to_euclidean_division_equations.
Local Open Scope N_scope.

Definition no_panic (r : result) : Prop :=
  match r with
  | REntropy (Ret _) | RNew (Ret _) _ | RCheck (Ret _) | RValid (Ret _) | RSeed _ | RString (Ret _) => True
  | _ => False
  end.

Lemma entropy_total ent l : exists r, NewMnemonicByEntropy ent l = Ret r.
Proof.
  destruct (gate_entropy (Z.of_nat (length ent))) eqn:G.
  - exists ([], Some ErrEntropyLen). apply NewMnemonicByEntropy_invalid. intros Hv.
    apply valid_ent_nat, gate_entropy_spec in Hv. congruence.
  - eexists. apply NewMnemonicByEntropy_valid. apply valid_ent_nat, gate_entropy_spec. exact G.
Qed.

Lemma new_total n l s : exists r, fst (NewMnemonic n l s) = Ret r.
Proof.
  destruct (gate_words n) eqn:G.
  - exists ([], Some ErrWordLen). rewrite NewMnemonic_rejects; [reflexivity|]. intros Hv. apply gate_words_spec in Hv. congruence.
  - apply gate_words_spec in G. pose proof (NewMnemonic_accepts n l s G) as H. cbn zeta in H.
    destruct (_ <=? _)%nat; [eexists; exact H|destruct H as [e He]; eexists; exact He].
Qed.

(* every map mapping() can return has values below 2048 *)
Lemma mapping_tables_registered : forallb (fun c => existsb (table_eqb (mc_table c)) registry) mapping_cases = true.
Proof. vm_compute. reflexivity. Qed.

Lemma mapping_pure_ok l t : mapping_pure l = Some t -> table_ok t = true.
Proof.
  unfold mapping_pure. destruct (find _ mapping_cases) as [c|] eqn:F; [|discriminate]. intros H. injection H as <-.
  apply find_some in F as [Hin _]. pose proof mapping_tables_registered as R. rewrite forallb_forall in R.
  specialize (R c Hin). apply existsb_exists in R as [t [Ht E]]. apply table_eqb_eq in E. rewrite E.
  pose proof registry_ok as K. rewrite forallb_forall in K. exact (K t Ht).
Qed.

Lemma map_get_bound l w i : map_get (mapping_pure l) w = Some i -> i < 2048.
Proof.
  destruct (mapping_pure l) as [t|] eqn:E; [|discriminate].
  pose proof (mapping_pure_ok l t E) as Hok. intros H. apply (tbl_get_bound t Hok w i). rewrite <- (map_get_tbl_get t w (tok_nodup _ Hok)). exact H.
Qed.

Lemma check_total lib s l : exists r, CheckMnemonicL lib s l = Ret r.
Proof. unfold CheckMnemonicL. rewrite (CheckMnemonic_spec lib _ (map_get_bound l)). eexists. reflexivity. Qed.

Lemma valid_total lib s l : exists b, IsMnemonicValidL lib s l = Ret b.
Proof.
  unfold IsMnemonicValidL, IsMnemonicValid. destruct (check_total lib s l) as [r Hr]. unfold CheckMnemonicL in Hr. rewrite Hr.
  eexists. reflexivity.
Qed.

Lemma string_total i : exists r, String_ i = Ret r.
Proof. eexists. apply String_correct. Qed.

Lemma pure_no_panic lib o : no_panic (pure lib o).
Proof.
  destruct o as [ent l|n l sc|m l|m l|m p|l]; cbn [pure no_panic].
  - destruct (entropy_total ent l) as [r ->]. exact I.
  - destruct (new_total n l sc) as [r Hr]. destruct (NewMnemonic n l sc) as [x rest]. cbn [fst] in Hr. rewrite Hr. exact I.
  - destruct (check_total lib m l) as [r Hr]. unfold CheckMnemonicL in Hr. rewrite Hr. exact I.
  - destruct (valid_total lib m l) as [r Hr]. unfold IsMnemonicValidL in Hr. rewrite Hr. exact I.
  - exact I.
  - destruct (string_total l) as [r ->]. exact I.
Qed.

(* any normaliser at all (no contract needed), any finite history of calls with any arguments *)
Theorem never_panics lib ops : Forall no_panic (run lib init_state ops).
Proof. rewrite history_free. rewrite Forall_map. apply Forall_forall. intros o _. apply pure_no_panic. Qed.

Lemma seed_length lib m p : length (MnemonicToSeed lib m p) = N.to_nat seed_keylen.
Proof. unfold MnemonicToSeed. apply pbkdf2_length. Qed.
