(* entropy.go:fromEntropy and bip39.go:NewMnemonicByEntropy produce exactly
   the BIP39 sentence (Spec.encode_with) - for every entropy and every
   Language value; no panic is reachable once the gate has passed. *)
From Coq Require Import ZifyBool ZifyNat ZifyN.
From B39 Require Import Lib.Base Lib.Bits Lib.Sha256 Lib.TableWF Model.GenTypes Model.Model.
From B39 Require Import Gen.Lang Gen.Gates Gen.Body Spec.Bip39Spec Proofs.Gates Proofs.Tables.
Ltac Zify.zify_post_hook ::= Z.to_euclidean_division_equations.
Local Open Scope N_scope.

Lemma mask_and_is : mask_and = 2047. Proof. reflexivity. Qed.
Lemma mask_quo_is : mask_quo = 2048. Proof. reflexivity. Qed.

Lemma land_2047_bound v : N.land v 2047 < 2048.
Proof. change 2047 with (N.ones 11). rewrite N.land_ones. apply N.mod_lt. discriminate. Qed.

(* the word loop is the peel loop followed by table lookup; it cannot index out of range *)
Lemma words_loop_peel tbl : length tbl = 2048%nat ->
  forall n v accN, words_loop n v tbl (map (word_at tbl) accN) = Ret (map (word_at tbl) (peel n v accN)).
Proof.
  intros Hlen. induction n as [|n IH]; intros v accN; cbn [words_loop peel]; [reflexivity|].
  rewrite mask_and_is, mask_quo_is. change (2048 =? 0) with false. cbv iota.
  pose proof (land_2047_bound v) as Hb.
  destruct (nth_error tbl (N.to_nat (N.land v 2047))) as [w|] eqn:E.
  - replace w with (word_at tbl (N.land v 2047)).
    + change (word_at tbl (N.land v 2047) :: map (word_at tbl) accN) with (map (word_at tbl) (N.land v 2047 :: accN)).
      apply IH.
    + unfold word_at. apply nth_error_nth. exact E.
  - exfalso. apply nth_error_None in E. lia.
Qed.

Lemma shl1_ok k : k <= 8 -> shl1_8_minus k = 2 ^ (8 - k) /\ shl1_8_minus k <> 0.
Proof.
  intros H. unfold shl1_8_minus. apply N.leb_le in H. rewrite H. split; [reflexivity|]. apply N.pow_nonzero. discriminate.
Qed.

(* the integer assembled by fromEntropy is the value of entropy bits ++ checksum bits *)
Lemma entInt_val ent k :
  length ent = (4 * k)%nat -> (k <= 8)%nat ->
  N.shiftl (be_to_N ent) (N.of_nat k) + be_to_N (firstn 1 (sha256 ent)) / 2 ^ (8 - N.of_nat k)
  = val (bits ent ++ firstn k (bits (sha256 ent))).
Proof.
  intros Hlen Hk.
  pose proof (sha256_length ent) as HL. destruct (sha256 ent) as [|h0 hrest] eqn:EH; [discriminate|].
  cbn [firstn].
  assert (Hcs : firstn k (bits (h0 :: hrest)) = firstn k (bits_of_byte h0)).
  { cbn [bits flat_map]. rewrite firstn_app. unfold bits_of_byte at 2. rewrite bits_of_N_length.
    replace (k - 8)%nat with 0%nat by lia. cbn [firstn]. rewrite app_nil_r. reflexivity. }
  rewrite Hcs, val_app, firstn_length. unfold bits_of_byte at 1. rewrite bits_of_N_length.
  replace (Nat.min k 8) with k by lia.
  rewrite val_firstn_byte by lia. rewrite N.shiftl_mul_pow2, be_to_N_val.
  unfold be_to_N. cbn [fold_left]. rewrite N.mul_0_l, N.add_0_l. reflexivity.
Qed.

Lemma indices_length (hash : list byte -> list byte) ent : length (bip39_indices hash ent) = (length ent / 4 * 3)%nat.
Proof.
  unfold bip39_indices. rewrite map_length. generalize (bits ent ++ checksum_bits hash ent).
  induction (length ent / 4 * 3)%nat as [|n IH]; intros l; cbn [chunks length]; [reflexivity|]. rewrite IH. reflexivity.
Qed.

Theorem fromEntropy_spec ent k lg :
  length ent = (4 * k)%nat -> (k <= 8)%nat ->
  fromEntropy ent (Z.of_nat (k * 3)) lg =
  Ret (encode_with sha256 (if Z.eqb lg sep_special_value then sep_special else sep_default) (list_of lg) ent).
Proof.
  intros Hlen Hk. unfold fromEntropy.
  assert (Hdiv : (length ent / 4 = k)%nat) by (rewrite Hlen, Nat.mul_comm; apply Nat.div_mul; lia).
  rewrite Hdiv.
  destruct (shl1_ok (N.of_nat k)) as [Hs Hnz]; [lia|]. rewrite Hs.
  apply N.eqb_neq in Hnz. rewrite Hs in Hnz. rewrite Hnz.
  rewrite entInt_val by assumption.
  assert (Hneg : ((Z.of_nat (k * 3) <? 0) || (17592186044416 <? Z.of_nat (k * 3)))%Z = false) by lia. rewrite Hneg.
  rewrite Nat2Z.id.
  pose proof (tok_length _ (list_of_ok lg)) as Ht.
  change (@nil (list byte)) with (map (word_at (list_of lg)) []).
  rewrite (words_loop_peel _ Ht).
  set (B := bits ent ++ firstn k (bits (sha256 ent))).
  assert (HB : length B = (11 * (k * 3))%nat).
  { unfold B. rewrite app_length, bits_length, firstn_length, bits_length, sha256_length. lia. }
  rewrite (peel_spec (k * 3) B [] HB), app_nil_r.
  unfold encode_with, bip39_indices, checksum_bits. rewrite Hdiv. fold B.
  destruct (Z.eqb lg sep_special_value); reflexivity.
Qed.

Lemma valid_ent_k n : valid_ent n -> exists k, n = (4 * k)%nat /\ (k <= 8)%nat.
Proof.
  unfold valid_ent. cbn [In]. intros H.
  exists (n / 4)%nat. repeat destruct H as [H|H]; subst; try contradiction; cbn; lia.
Qed.

(* bip39.go:NewMnemonicByEntropy, every entropy and every Language value *)
Theorem NewMnemonicByEntropy_valid ent lg : valid_ent (length ent) ->
  NewMnemonicByEntropy ent lg =
  Ret (encode_with sha256 (if Z.eqb lg sep_special_value then sep_special else sep_default) (list_of lg) ent, None).
Proof.
  intros Hv. unfold NewMnemonicByEntropy.
  assert (Hg : gate_entropy (Z.of_nat (length ent)) = false) by (apply gate_entropy_spec, valid_ent_nat; exact Hv).
  rewrite Hg. destruct (valid_ent_k _ Hv) as [k [Hlen Hk]].
  replace (Z.quot (Z.of_nat (length ent)) 4 * 3)%Z with (Z.of_nat (k * 3)) by (rewrite Hlen; lia).
  rewrite (fromEntropy_spec ent k lg Hlen Hk). reflexivity.
Qed.

Theorem NewMnemonicByEntropy_invalid ent lg : ~ valid_ent (length ent) ->
  NewMnemonicByEntropy ent lg = Ret ([], Some ErrEntropyLen).
Proof.
  intros Hv. unfold NewMnemonicByEntropy.
  destruct (gate_entropy (Z.of_nat (length ent))) eqn:Hg; [reflexivity|].
  exfalso. apply Hv. apply valid_ent_nat, gate_entropy_spec. exact Hg.
Qed.

(* the separator literal read from the source: U+3000 for Japanese only *)
Lemma separator_is name lg : supported name lg ->
  (if Z.eqb lg sep_special_value then sep_special else sep_default) = separator name.
Proof.
  intros Hs. unfold supported in Hs.
  assert (K : forallb (fun c => bytes_eqb (if Z.eqb (snd c) sep_special_value then sep_special else sep_default) (separator (fst c))) lang_consts = true)
    by (vm_compute; reflexivity).
  rewrite forallb_forall in K. specialize (K _ Hs). apply bytes_eqb_eq in K. exact K.
Qed.

(* C01: the BIP39 sentence over the canonical list, for the ten supported languages *)
Theorem encode_conforms ent name lg : valid_ent (length ent) -> supported name lg ->
  NewMnemonicByEntropy ent lg = Ret (bip39_encode sha256 name ent, None).
Proof.
  intros Hv Hs. rewrite (NewMnemonicByEntropy_valid ent lg Hv).
  rewrite (separator_is name lg Hs), (list_of_canon name lg Hs). reflexivity.
Qed.
