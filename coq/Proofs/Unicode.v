(* NFKD / UTF-8 facts about sentences: normalising a sentence of well-formed
   words joined by U+0020 or U+3000 gives the words joined by U+0020; the
   whitespace tokens of such a sentence are the words. *)
From Coq Require Import ZifyBool ZifyNat ZifyN.
From B39 Require Import Lib.Base Lib.Utf8 Lib.Nfkd Lib.TableWF Spec.Bip39Spec Proofs.Tables.
Local Open Scope N_scope.

Definition words_ok (ws : list (list byte)) : Prop := Forall (fun w => word_ok w = true) ws.

Lemma ccc_space : ccc 0x20 = 0. Proof. vm_compute. reflexivity. Qed.
Lemma decomp_space : decomp 0x20 = [0x20]. Proof. vm_compute. reflexivity. Qed.
Lemma decomp_u3000 : decomp 0x3000 = [0x20]. Proof. vm_compute. reflexivity. Qed.
Lemma decode_space : utf8_decode [x20] = [0x20]. Proof. vm_compute. reflexivity. Qed.
Lemma decode_u3000 : utf8_decode u3000 = [0x3000]. Proof. vm_compute. reflexivity. Qed.
Lemma valid_space : utf8_valid [x20] = true. Proof. vm_compute. reflexivity. Qed.
Lemma valid_u3000 : utf8_valid u3000 = true. Proof. vm_compute. reflexivity. Qed.
Lemma encode_space : utf8_encode [0x20] = [x20]. Proof. vm_compute. reflexivity. Qed.

(* a sentence separator: one code point that NFKD maps to U+0020 *)
Definition is_sep (sep : list byte) (c : N) : Prop :=
  utf8_valid sep = true /\ utf8_decode sep = [c] /\ decomp c = [0x20].
Lemma is_sep_space : is_sep [x20] 0x20.
Proof. unfold is_sep. split; [apply valid_space|split; [apply decode_space|apply decomp_space]]. Qed.
Lemma is_sep_u3000 : is_sep u3000 0x3000.
Proof. unfold is_sep. split; [apply valid_u3000|split; [apply decode_u3000|apply decomp_u3000]]. Qed.

Lemma utf8_decode_join sep c ws : is_sep sep c -> words_ok ws ->
  utf8_decode (join sep ws) = join [c] (map utf8_decode ws).
Proof.
  intros [Hv [Hd _]] Hws. induction Hws as [|w rest Hw Hrest IH]; [reflexivity|].
  destruct rest as [|x rest']; [reflexivity|].
  rewrite join_cons. cbn [map]. rewrite join_cons.
  rewrite utf8_decode_app by (apply wok_valid; exact Hw).
  rewrite utf8_decode_app by exact Hv. rewrite Hd, IH. reflexivity.
Qed.

Lemma nfkd_cps_sep_cons c b : decomp c = [0x20] -> nfkd_cps (c :: b) = 0x20 :: nfkd_cps b.
Proof. intros Hc. unfold nfkd_cps. cbn [flat_map]. rewrite Hc. cbn [app reorder]. rewrite ccc_space. reflexivity. Qed.

Lemma nfkd_cps_join c (xs : list (list N)) : decomp c = [0x20] ->
  nfkd_cps (join [c] xs) = join [0x20] (map nfkd_cps xs).
Proof.
  intros Hc. induction xs as [|x rest IH]; [reflexivity|].
  destruct rest as [|y rest']; [reflexivity|].
  rewrite join_cons. cbn [map]. rewrite join_cons. cbn [app].
  rewrite nfkd_cps_app_starter.
  - rewrite nfkd_cps_sep_cons by exact Hc. rewrite IH. reflexivity.
  - exists [0x20]. split; [exact Hc|apply ccc_space].
Qed.

Lemma utf8_encode_join (xs : list (list N)) :
  utf8_encode (join [0x20] xs) = join [x20] (map utf8_encode xs).
Proof.
  induction xs as [|x rest IH]; [reflexivity|]. destruct rest as [|y rest']; [reflexivity|].
  rewrite join_cons. cbn [map]. rewrite join_cons. rewrite !utf8_encode_app, encode_space, IH. reflexivity.
Qed.

(* NFKD of a sentence: the words joined by U+0020 *)
Lemma valid_join sep c ws : is_sep sep c -> words_ok ws -> utf8_valid (join sep ws) = true.
Proof.
  intros [Hv _] Hws. induction Hws as [|w rest Hw Hrest IH]; [reflexivity|].
  destruct rest as [|x rest']; [cbn [join]; exact (wok_valid w Hw)|].
  rewrite join_cons. apply utf8_valid_app; [exact (wok_valid w Hw)|]. apply utf8_valid_app; [exact Hv|exact IH].
Qed.

Theorem nfkd_join sep c ws : is_sep sep c -> words_ok ws -> nfkd (join sep ws) = join [x20] ws.
Proof.
  intros Hsep Hws. unfold nfkd. rewrite (utf8_decode_join sep c ws Hsep Hws).
  destruct Hsep as [_ [_ Hc]]. rewrite nfkd_cps_join by exact Hc. rewrite utf8_encode_join. rewrite !map_map.
  f_equal. induction Hws as [|w rest Hw _ IH]; [reflexivity|]. cbn [map]. rewrite IH. f_equal.
  exact (wok_nfkd w Hw).
Qed.

(* splitting a joined sentence on single spaces gives the words back *)
Lemma split_join_words ws : ws <> [] -> words_ok ws ->
  split_at (fun b => Byte.eqb b x20) (join [x20] ws) = ws.
Proof.
  intros Hne Hws. apply split_at_join; [reflexivity|exact Hne|].
  eapply Forall_impl; [|exact Hws]. cbn. intros w Hw. exact (wok_nospace w Hw).
Qed.

Lemma filter_true_all {A} (p : A -> bool) l : Forall (fun x => p x = true) l -> filter p l = l.
Proof. induction 1 as [|x l Hx _ IH]; cbn [filter]; [reflexivity|]. rewrite Hx, IH. reflexivity. Qed.

(* the Unicode-whitespace tokens of a sentence joined by a separator that is a space code point *)
Lemma ws_tokens_join sep c ws : is_sep sep c -> is_space_cp c = true -> ws <> [] -> words_ok ws ->
  ws_tokens (join sep ws) = ws.
Proof.
  intros Hsep Hc Hne Hws. unfold ws_tokens. rewrite (utf8_decode_join sep c ws Hsep Hws).
  rewrite (split_at_join is_space_cp c); [| exact Hc | destruct ws; [contradiction|discriminate] |].
  - rewrite filter_true_all.
    + rewrite map_map. induction Hws as [|w rest Hw _ IH]; [reflexivity|]. cbn [map].
      rewrite (wok_roundtrip w Hw). f_equal.
      destruct rest as [|x r]; [reflexivity|]. apply IH. discriminate.
    + rewrite Forall_map. eapply Forall_impl; [|exact Hws]. cbn. intros w Hw.
      pose proof (wok_nonempty w Hw) as Hn. pose proof (wok_roundtrip w Hw) as Hr.
      destruct (utf8_decode w) eqn:E; [|reflexivity]. cbn in Hr. congruence.
  - rewrite Forall_map. eapply Forall_impl; [|exact Hws]. cbn. intros w Hw. exact (wok_nospacecp w Hw).
Qed.
