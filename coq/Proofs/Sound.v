(* Acceptance implies well-formedness (C03), classification of the errors (C15)
   and invariance under equivalent spellings (C10), for every string. *)
From Coq Require Import ZifyBool ZifyNat ZifyN.
From B39 Require Import Lib.Base Lib.Bits Lib.Sha256 Lib.Utf8 Lib.Nfkd Lib.TableWF Model.GenTypes Model.Model.
From B39 Require Import Spec.Bip39Spec Proofs.Gates Proofs.Tables Proofs.BitsMore Proofs.Encode Proofs.Validate Proofs.Unicode Proofs.LibContract Proofs.Roundtrip.
Local Open Scope N_scope.

(* ---------- the Go map built from a duplicate-free table is the table's index function ---------- *)
Lemma last_index_from_nodup w t : NoDup t -> forall i acc,
  last_index_from w t i acc = match index_of w t with Some j => Some (i + N.of_nat j) | None => acc end.
Proof.
  induction 1 as [|x r Hx Hnd IH]; intros i acc; cbn [last_index_from index_of]; [reflexivity|].
  rewrite IH. destruct (bytes_eqb x w) eqn:E.
  - apply bytes_eqb_eq in E. subst x.
    destruct (index_of w r) as [j|] eqn:Ej; [exfalso; apply Hx; apply index_of_Some in Ej; eapply nth_error_In; exact Ej|].
    f_equal. lia.
  - destruct (index_of w r) as [j|]; [f_equal; lia|reflexivity].
Qed.

Lemma map_get_tbl_get t w : NoDup t -> map_get (Some t) w = tbl_get t w.
Proof.
  intros Hnd. unfold map_get, tbl_get. rewrite (last_index_from_nodup w t Hnd).
  destruct (index_of w t); [f_equal; lia|reflexivity].
Qed.

(* CheckMnemonic uses its map argument pointwise only *)
Lemma assemble_ext g1 g2 : (forall w, g1 w = g2 w) -> forall toks wc i acc, assemble g1 toks wc i acc = assemble g2 toks wc i acc.
Proof.
  intros H. induction toks as [|t r IH]; intros wc i acc; cbn [assemble]; [reflexivity|].
  rewrite H. destruct (g2 t); [apply IH|reflexivity].
Qed.

Lemma CheckMnemonic_ext lib g1 g2 s : (forall w, g1 w = g2 w) -> CheckMnemonic lib g1 s = CheckMnemonic lib g2 s.
Proof.
  intros H. unfold CheckMnemonic, CheckMnemonic_gen. rewrite (assemble_ext g1 g2 H). reflexivity.
Qed.

(* the validator of a Language value, as the API exposes it *)
Definition CheckMnemonicL (lib : list byte -> list byte) (s : list byte) (l : Z) : outcome (option error) :=
  CheckMnemonic lib (map_get (mapping_pure l)) s.
Definition IsMnemonicValidL (lib : list byte -> list byte) (s : list byte) (l : Z) : outcome bool :=
  IsMnemonicValid lib (map_get (mapping_pure l)) s.

Lemma CheckMnemonicL_supported lib s name l : supported name l ->
  CheckMnemonicL lib s l = CheckMnemonic lib (tbl_get (list_of l)) s.
Proof.
  intros Hs. unfold CheckMnemonicL. rewrite (mapping_supported name l Hs).
  apply CheckMnemonic_ext. intros w. apply map_get_tbl_get. exact (tok_nodup _ (list_of_ok l)).
Qed.

Lemma CheckMnemonicL_unsupported lib s l : (forall name, ~ supported name l) ->
  CheckMnemonicL lib s l = CheckMnemonic lib (fun _ => None) s.
Proof. intros Hn. unfold CheckMnemonicL. rewrite (mapping_unsupported l Hn). reflexivity. Qed.

(* ---------- U+034F cannot hide across a 0x20 ---------- *)
Lemma has_cgj_app_space a b : has_cgj (a ++ x20 :: b) = has_cgj a || has_cgj b.
Proof.
  induction a as [|y a IH]; [reflexivity|]. cbn [app has_cgj]. rewrite IH.
  destruct a as [|z a']; cbn [app].
  - destruct (Byte.eqb y xcd); reflexivity.
  - rewrite orb_assoc. reflexivity.
Qed.

Lemma has_cgj_join ws : Forall (fun w => has_cgj w = false) ws -> has_cgj (join [x20] ws) = false.
Proof.
  induction 1 as [|w rest Hw _ IH]; [reflexivity|]. destruct rest as [|x r]; [exact Hw|].
  rewrite join_cons. cbn [app]. rewrite has_cgj_app_space, Hw, IH. reflexivity.
Qed.

Lemma count_sp_split s : length (split_at (fun b => Byte.eqb b x20) s) = S (count_sp s).
Proof. apply split_at_length. Qed.

Lemma join_split s : join [x20] (split_at (fun b => Byte.eqb b x20) s) = s.
Proof. apply join_split_at. intros b Hb. apply byte_eqb_eq in Hb. exact Hb. Qed.

Section Table.
Variable tbl : table.
Hypothesis Htbl : table_ok tbl = true.
Variable lib : list byte -> list byte.

Notation toks_of s := (split_at (fun b => Byte.eqb b x20) (lib s)).

(* what acceptance means for the tokens the implementation looks at *)
Lemma accepted_tokens s : CheckMnemonic lib (tbl_get tbl) s = Ret None ->
  exists idx, toks_of s = map (word_at tbl) idx /\ valid_wc (length idx) /\
              Forall (fun i => i < 2048) idx /\ checksum_okb sha256 idx = true.
Proof.
  rewrite (CheckMnemonic_spec lib (tbl_get tbl) (tbl_get_bound tbl Htbl)). unfold classify.
  destruct (valid_wc_b (length (toks_of s))) eqn:V; cbn [negb]; [|discriminate].
  destruct (first_unknown (tbl_get tbl) (toks_of s) 0) as [[t i]|] eqn:F; [discriminate|].
  destruct (first_unknown_none_lookup _ _ _ F) as [idx His]. rewrite His.
  destruct (checksum_okb sha256 idx) eqn:C; [|discriminate]. intros _.
  destruct (lookup_all_words tbl _ _ His) as [Hw _].
  exists idx. split; [exact Hw|]. split; [rewrite (lookup_all_length _ _ _ His); apply valid_wc_b_spec; exact V|].
  split; [exact (lookup_all_bound _ (tbl_get_bound tbl Htbl) _ _ His)|exact C].
Qed.

Lemma accepted_no_cgj s : CheckMnemonic lib (tbl_get tbl) s = Ret None -> has_cgj (lib s) = false.
Proof.
  intros H. destruct (accepted_tokens s H) as [idx [Ht [_ [Hb _]]]].
  rewrite <- (join_split (lib s)), Ht. apply has_cgj_join. rewrite Forall_map.
  eapply Forall_impl; [|exact Hb]. cbn. intros i Hi.
  exact (wok_nocgj _ (tok_words _ Htbl _ (word_at_in tbl Htbl i Hi))).
Qed.

(* what the library returned for an accepted string is a sentence of table words: valid UTF-8 *)
Lemma accepted_lib_valid s : CheckMnemonic lib (tbl_get tbl) s = Ret None -> utf8_valid (lib s) = true.
Proof.
  intros H. destruct (accepted_tokens s H) as [idx [Ht [_ [Hb _]]]].
  rewrite <- (join_split (lib s)), Ht.
  exact (valid_join [x20] 0x20 _ is_sep_space (words_of_indices_ok tbl Htbl idx Hb)).
Qed.

Hypothesis Hlib : lib_contract lib.

(* ... so the accepted string itself was valid UTF-8 (LC4: invalid input never becomes valid output) *)
Lemma accepted_valid s : CheckMnemonic lib (tbl_get tbl) s = Ret None -> utf8_valid s = true.
Proof.
  intros H. destruct (utf8_valid s) eqn:V; [reflexivity|].
  pose proof (accepted_lib_valid s H) as K. rewrite (LC4 _ Hlib s V) in K. discriminate.
Qed.

Lemma accepted_xsafe s : CheckMnemonic lib (tbl_get tbl) s = Ret None -> xsafe s = true.
Proof.
  intros H. destruct (xsafe s) eqn:X; [reflexivity|].
  pose proof (accepted_no_cgj s H) as K. rewrite (LC2 _ Hlib s (accepted_valid s H) X) in K. discriminate.
Qed.

(* C03: acceptance implies a well-formed, correctly checksummed sentence of table words *)
Theorem accepted_sound s : CheckMnemonic lib (tbl_get tbl) s = Ret None ->
  valid_sentence_with sha256 tbl (ws_tokens (nfkd s)).
Proof.
  intros H. destruct (accepted_tokens s H) as [idx [Ht [Hwc [Hb Hcs]]]].
  rewrite (LC1 _ Hlib s (accepted_valid s H) (accepted_xsafe s H)) in Ht.
  exists idx. split; [|split; [exact Hwc|split; [exact Hb|]]].
  - rewrite <- (join_split (nfkd s)), Ht.
    apply (ws_tokens_join [x20] 0x20); [apply is_sep_space|reflexivity| |apply (words_of_indices_ok tbl Htbl); exact Hb].
    intros E. apply (f_equal (@length _)) in E. rewrite map_length in E. unfold valid_wc in Hwc. cbn [In length] in *. lia.
  - unfold checksum_ok. unfold checksum_okb in Hcs. apply bools_eqb_eq in Hcs. exact Hcs.
Qed.

(* C10: equal NFKD forms give the same answer (the same error class even) *)
Theorem same_nfkd_same_result s1 s2 : utf8_valid s1 = true -> utf8_valid s2 = true -> nfkd s1 = nfkd s2 ->
  (CheckMnemonic lib (tbl_get tbl) s1 = Ret None <-> CheckMnemonic lib (tbl_get tbl) s2 = Ret None).
Proof.
  intros V1 V2 E. assert (X : xsafe s1 = xsafe s2) by (unfold xsafe; rewrite E; reflexivity).
  destruct (xsafe s1) eqn:X1.
  - assert (L : lib s1 = lib s2) by (rewrite (LC1 _ Hlib s1 V1 X1), (LC1 _ Hlib s2 V2 (eq_sym X)); exact E).
    rewrite !(CheckMnemonic_spec lib (tbl_get tbl) (tbl_get_bound tbl Htbl)), L. reflexivity.
  - split; intros H; apply accepted_xsafe in H; congruence.
Qed.

Theorem same_nfkd_same_class s1 s2 : utf8_valid s1 = true -> utf8_valid s2 = true -> nfkd s1 = nfkd s2 -> xsafe s1 = true ->
  CheckMnemonic lib (tbl_get tbl) s1 = CheckMnemonic lib (tbl_get tbl) s2.
Proof.
  intros V1 V2 E X1. assert (X : xsafe s2 = true) by (unfold xsafe in *; rewrite <- E; exact X1).
  rewrite !(CheckMnemonic_spec lib (tbl_get tbl) (tbl_get_bound tbl Htbl)).
  rewrite (LC1 _ Hlib s1 V1 X1), (LC1 _ Hlib s2 V2 X), E. reflexivity.
Qed.
End Table.

(* a nil map (unsupported Language value) accepts nothing *)
Lemma nil_map_rejects lib s : CheckMnemonic lib (fun _ => None) s <> Ret None.
Proof.
  rewrite (CheckMnemonic_spec lib (fun _ => None)) by discriminate. unfold classify.
  destruct (valid_wc_b _) eqn:V; cbn [negb]; [|discriminate].
  destruct (split_at _ (lib s)) as [|t r] eqn:E; [exfalso; exact (split_at_nonempty _ _ E)|].
  cbn [first_unknown]. discriminate.
Qed.
