(* The three size gates, as GENERATED from the source (Gen/Gates.v), decide
   exactly the BIP39 sizes - for every integer. *)
From Coq Require Import ZifyBool ZifyNat ZifyN.
From B39 Require Import Lib.Base Model.GenTypes Gen.Gates Spec.Bip39Spec.
Ltac Zify.zify_post_hook ::= Z.to_euclidean_division_equations.

Definition valid_ent_z (n : Z) : Prop := (n = 16 \/ n = 20 \/ n = 24 \/ n = 28 \/ n = 32)%Z.
Definition valid_wc_z (n : Z) : Prop := (n = 12 \/ n = 15 \/ n = 18 \/ n = 21 \/ n = 24)%Z.

Lemma gate_entropy_spec (n : Z) : gate_entropy n = false <-> valid_ent_z n.
Proof. unfold gate_entropy, valid_ent_z. lia. Qed.

Lemma gate_words_spec (n : Z) : gate_words n = false <-> valid_wc_z n.
Proof. unfold gate_words, valid_wc_z. lia. Qed.

Lemma gate_count_spec (n : Z) : gate_count n = false <-> valid_wc_z n.
Proof. unfold gate_count, valid_wc_z. lia. Qed.

Lemma gate_entropy_err_is : gate_entropy_err = ErrEntropyLen. Proof. reflexivity. Qed.
Lemma gate_words_err_is : gate_words_err = ErrWordLen. Proof. reflexivity. Qed.
Lemma gate_count_err_is : gate_count_err = ErrWordLen. Proof. reflexivity. Qed.

Lemma valid_ent_nat n : valid_ent n <-> valid_ent_z (Z.of_nat n).
Proof. unfold valid_ent, valid_ent_z. cbn [In]. lia. Qed.
Lemma valid_wc_nat n : valid_wc n <-> valid_wc_z (Z.of_nat n).
Proof. unfold valid_wc, valid_wc_z. cbn [In]. lia. Qed.
