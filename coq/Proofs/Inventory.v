(* The package-level variable inventory read from the source (Gen/Inventory.v) is a
   closed world: every variable has one of the recognised roles, and only the
   lazily built maps are ever written, each only inside a once.Do closure.  The
   state of the model (Model/State.v) is exactly these maps and onces, so a new
   package-level variable (a cache, a shared buffer, a counter) breaks this fact. *)
From B39 Require Import Lib.Base Model.GenTypes Model.Model Model.State Gen.Lang Gen.Inventory Gen.Body Proofs.History.

Definition starts_with (p s : string) : bool := String.prefix p s.

Definition var_role_ok (v : pkg_var) : bool :=
  let nowrites := match pv_writes v with [] => true | _ => false end in
  (* sentinel errors *)
  (starts_with "errors.New(" (pv_init v) && nowrites)
  (* the ten sync.Once guards *)
  || (String.eqb (pv_type v) "sync.Once" && str_mem (pv_name v) (map mc_once mapping_cases) && nowrites)
  (* the ten maps: written only inside their once.Do closure *)
  || (String.eqb (pv_type v) "map[string]int64" && str_mem (pv_name v) (map mc_made mapping_cases)
      && forallb (fun w => snd w) (pv_writes v))
  (* the randomness source *)
  || (String.eqb (pv_name v) readfull_src && String.eqb (pv_init v) "crypto/rand.Reader" && nowrites)
  (* the two shared *big.Int masks: never a receiver, never assigned *)
  || (starts_with "math/big.NewInt(" (pv_init v) && nowrites)
  (* the stringer index table *)
  || (String.eqb (pv_name v) "_Language_index" && nowrites).

Definition inventory_ok : bool :=
  forallb var_role_ok pkg_vars && negb pkg_has_init_func && match pkg_env_reads with [] => true | _ => false end.

Lemma inventory_ok_holds : inventory_ok = true.
Proof. vm_compute. reflexivity. Qed.

(* the default randomness source: initialised to crypto/rand.Reader, never reassigned in a guard-off
   build, no init() function, no math/rand import, no
   environment variable is read by the package; it is the reader passed to io.ReadFull *)
Definition default_source_ok : bool :=
  existsb (fun v => String.eqb (pv_name v) readfull_src && String.eqb (pv_init v) "crypto/rand.Reader"
                    && match pv_writes v with [] => true | _ => false end) pkg_vars
  && negb pkg_has_init_func
  && match pkg_env_reads with [] => true | _ => false end
  && negb (existsb (fun i => String.eqb i "math/rand" || String.eqb i "math/rand/v2") pkg_imports)
  && body_NewMnemonic_read_ok.

Lemma default_source_ok_holds : default_source_ok = true.
Proof. vm_compute. reflexivity. Qed.
