(* C07: which reader NewMnemonic consults, and that its output is a function of the
   bytes that reader delivers and of nothing else. *)
From Coq Require Import ZifyBool ZifyNat ZifyN.
From B39 Require Import Lib.Base Lib.Sha256 Model.GenTypes Model.Model Model.State Spec.Bip39Spec.
From B39 Require Import Gen.Inventory Gen.Body Proofs.Gates Proofs.Tables Proofs.Encode Proofs.Reader Proofs.History Proofs.Inventory.

(* the package-level source variable as a state machine: it starts as its initializer and is changed only
   by the verif-tagged hook (HSwap); the API calls of the package never assign it - that is the computed
   fact default_source_ok (no write site in a guard-off build, no init(), no environment reads) *)
Inductive source := SrcInitializer | SrcSwapped (r : nat).
Inductive hop := HApi (o : op) | HSwap (r : nat).
Definition src_step (s : source) (h : hop) : source := match h with HApi _ => s | HSwap r => SrcSwapped r end.
Definition source_after (h : list hop) : source := fold_left src_step h SrcInitializer.
Definition is_api (h : hop) : bool := match h with HApi _ => true | HSwap _ => false end.

Theorem source_without_swap h : forallb is_api h = true -> source_after h = SrcInitializer.
Proof.
  unfold source_after. assert (G : forall s, forallb is_api h = true -> fold_left src_step h s = s).
  { induction h as [|x h IH]; intros s H; [reflexivity|].
    cbn [forallb] in H. apply andb_prop in H as [Hx Hh]. cbn [fold_left]. destruct x; [|discriminate]. cbn [src_step]. apply IH. exact Hh. }
  apply G.
Qed.

(* the initializer expression of the variable that io.ReadFull is given, read from the source *)
Definition source_initializer : option string :=
  match find (fun v => String.eqb (pv_name v) readfull_src) pkg_vars with Some v => Some (pv_init v) | None => None end.

Lemma source_initializer_is : source_initializer = Some "crypto/rand.Reader"%string.
Proof. vm_compute. reflexivity. Qed.

(* NewMnemonic's result is a function of the first 4n/3 delivered bytes: two sources that deliver the same
   prefix give the same result, whatever else differs (fragmentation, later bytes, trailing errors) *)
Theorem function_of_delivered_bytes n l s1 s2 : valid_wc_z n ->
  let need := Z.to_nat (n + n / 3) in
  (need <= length (delivered s1))%nat -> (need <= length (delivered s2))%nat ->
  firstn need (delivered s1) = firstn need (delivered s2) ->
  fst (NewMnemonic n l s1) = fst (NewMnemonic n l s2).
Proof.
  intros Hv need H1 H2 E.
  pose proof (NewMnemonic_accepts n l s1 Hv) as A1. pose proof (NewMnemonic_accepts n l s2 Hv) as A2. cbn zeta in A1, A2. fold need in A1, A2.
  apply Nat.leb_le in H1, H2. rewrite H1 in A1. rewrite H2 in A2. rewrite A1, A2, E. reflexivity.
Qed.
