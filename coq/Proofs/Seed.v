(* bip39.go:MnemonicToSeed = PBKDF2-HMAC-SHA512(NFKD m, "mnemonic" || NFKD p, 2048, 64) for all
   byte strings inside the domain where the library's normaliser is UAX #15 NFKD (C04),
   hence invariant under equivalent spellings (C11). *)
From Coq Require Import ZifyBool ZifyNat ZifyN.
From B39 Require Import Lib.Base Lib.Utf8 Lib.Nfkd Lib.Pbkdf2 Model.GenTypes Model.Model Gen.Body Spec.Bip39Spec.
From B39 Require Import Proofs.LibContract.
Local Open Scope N_scope.

(* the literals read from the source *)
Lemma seed_literals : seed_prefix = mnemonic_salt /\ seed_iter = 2048 /\ seed_keylen = 64 /\
  seed_hash = "sha512.New"%string /\ seed_norm_m = "NFKD"%string /\ seed_norm_p = "NFKD"%string /\ body_MnemonicToSeed_ok = true.
Proof. repeat split; reflexivity. Qed.

(* "mnemonic": valid UTF-8 whose code points are starters that decompose to themselves *)
Definition prefix_cps : list N := utf8_decode mnemonic_salt.
Lemma prefix_facts :
  utf8_valid mnemonic_salt = true /\ flat_map decomp prefix_cps = prefix_cps /\
  forallb (fun c => ccc c =? 0) prefix_cps = true /\ utf8_encode prefix_cps = mnemonic_salt /\
  forallb (fun c => negb (is_modifier c)) prefix_cps = true /\ prefix_cps <> [].
Proof. repeat split; try (vm_compute; reflexivity). vm_compute. discriminate. Qed.

Theorem nfkd_prefix p : nfkd (mnemonic_salt ++ p) = mnemonic_salt ++ nfkd p.
Proof.
  destruct prefix_facts as [Hv [Hd [Hc [He _]]]].
  unfold nfkd. rewrite (utf8_decode_app _ _ Hv). fold prefix_cps.
  unfold nfkd_cps. rewrite flat_map_app, Hd.
  rewrite reorder_starters_prefix by (apply Forall_forall; intros c Hin; rewrite forallb_forall in Hc; apply N.eqb_eq; exact (Hc c Hin)).
  rewrite utf8_encode_app, He. reflexivity.
Qed.

Theorem xsafe_prefix p : xsafe (mnemonic_salt ++ p) = xsafe p.
Proof.
  destruct prefix_facts as [Hv [_ [_ [_ [Hm Hne]]]]].
  unfold xsafe. rewrite nfkd_prefix. rewrite (utf8_decode_app _ _ Hv). fold prefix_cps. unfold xsafe_cps.
  rewrite run_ok_prefix_clean.
  - destruct prefix_cps; [contradiction|reflexivity].
  - apply Forall_forall. intros c Hin. rewrite forallb_forall in Hm. specialize (Hm c Hin). apply negb_true_iff in Hm. exact Hm.
Qed.

Section Lib.
Variable lib : list byte -> list byte.
Hypothesis Hlib : lib_contract lib.

Theorem seed_spec m p : utf8_valid m = true -> utf8_valid p = true -> xsafe m = true -> xsafe p = true ->
  MnemonicToSeed lib m p = bip39_seed m p.
Proof.
  intros Vm Vp Xm Xp. unfold MnemonicToSeed, bip39_seed.
  destruct seed_literals as [E1 [E2 [E3 _]]]. rewrite E1, E2, E3.
  rewrite (LC1 _ Hlib m Vm Xm).
  rewrite (LC1 _ Hlib (mnemonic_salt ++ p)) by (first [apply utf8_valid_app; [exact (proj1 prefix_facts)|exact Vp]|rewrite xsafe_prefix; exact Xp]).
  rewrite nfkd_prefix. reflexivity.
Qed.

Lemma xsafe_same_nfkd a b : nfkd a = nfkd b -> xsafe a = xsafe b.
Proof. intros E. unfold xsafe. rewrite E. reflexivity. Qed.

Theorem seed_same_nfkd m1 p1 m2 p2 :
  utf8_valid m1 = true -> utf8_valid p1 = true -> utf8_valid m2 = true -> utf8_valid p2 = true ->
  nfkd m1 = nfkd m2 -> nfkd p1 = nfkd p2 -> xsafe m1 = true -> xsafe p1 = true ->
  MnemonicToSeed lib m1 p1 = MnemonicToSeed lib m2 p2.
Proof.
  intros V1 W1 V2 W2 Em Ep Xm Xp.
  rewrite (seed_spec m1 p1 V1 W1 Xm Xp).
  rewrite (seed_spec m2 p2 V2 W2) by (rewrite <- ?(xsafe_same_nfkd _ _ Em), <- ?(xsafe_same_nfkd _ _ Ep); assumption).
  unfold bip39_seed. rewrite Em, Ep. reflexivity.
Qed.
End Lib.

(* the seed has 64 bytes for every input and every normaliser *)
Lemma seed_length_64 lib m p : length (MnemonicToSeed lib m p) = 64%nat.
Proof. unfold MnemonicToSeed. rewrite pbkdf2_length. reflexivity. Qed.

(* the witness of finding F3 lies outside the domain: "a" followed by 31 x U+0301 *)
Definition f3_passphrase : list byte := x61 :: concat (repeat [xcc; x81] 31).
Example f3_witness_not_xsafe : xsafe f3_passphrase = false.
Proof. vm_compute. reflexivity. Qed.
Example f3_boundary_is_xsafe : xsafe (x61 :: concat (repeat [xcc; x81] 30)) = true.
Proof. vm_compute. reflexivity. Qed.
