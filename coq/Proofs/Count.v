(* C03, counting clause: for any fixed first n-1 words exactly 2^(11 - n/3) of the
   2048 candidate last words are accepted.  The hash is used abstractly (through
   checksum_okb), so this is reasoning, not enumeration. *)
From Coq Require Import ZifyBool ZifyNat ZifyN.
From B39 Require Import Lib.Base Lib.Bits Lib.Sha256 Lib.Utf8 Lib.Nfkd Lib.TableWF Model.GenTypes Model.Model.
From B39 Require Import Spec.Bip39Spec Proofs.Gates Proofs.Tables Proofs.BitsMore Proofs.Encode Proofs.Validate Proofs.Unicode Proofs.LibContract Proofs.Roundtrip Proofs.Sound Proofs.Api.
Ltac Zify.zify_post_hook ::= Z.to_euclidean_division_equations.

(* ---------- the combinatorial core ---------- *)
Lemma filter_seq_one a m x (P : nat -> bool) :
  a <= x < a + m -> (forall j, a <= j < a + m -> P j = (j =? x)) ->
  length (filter P (seq a m)) = 1.
Proof.
  revert a. induction m as [|m IH]; intros a Hx HP; [lia|].
  cbn [seq filter]. destruct (Nat.eq_dec a x) as [->|Hne].
  - rewrite HP by lia. rewrite Nat.eqb_refl. cbn [length]. f_equal.
    rewrite (proj2 (length_zero_iff_nil _)); [reflexivity|].
    assert (Hnone : forall j, In j (seq (S x) m) -> P j = false).
    { intros j Hj. apply in_seq in Hj. rewrite HP by lia. apply Nat.eqb_neq. lia. }
    clear -Hnone. induction (seq (S x) m) as [|y l IHl]; [reflexivity|].
    cbn [filter]. rewrite Hnone by (left; reflexivity). apply IHl. intros j Hj. apply Hnone. right. exact Hj.
  - rewrite HP by lia. rewrite (proj2 (Nat.eqb_neq a x) Hne). apply IH; [lia|]. intros j Hj. apply HP. lia.
Qed.

Lemma count_mod m k (g : nat -> nat) :
  0 < m -> (forall h, g h < m) ->
  length (filter (fun j => j mod m =? g (j / m)) (seq 0 (k * m))) = k.
Proof.
  intros Hm Hg. induction k as [|k IH]; [reflexivity|].
  replace (S k * m) with (k * m + m) by lia. rewrite seq_app, filter_app, app_length, IH. cbn [Nat.add].
  rewrite (filter_seq_one (k * m) m (k * m + g k)); [lia| specialize (Hg k); lia |].
  intros j Hj.
  assert (Hq : j / m = k) by (symmetry; apply Nat.div_unique with (r := j - k * m); lia).
  assert (Hr : j mod m = j - k * m) by (symmetry; apply Nat.mod_unique with (q := k); lia).
  rewrite Hq, Hr. destruct (Nat.eqb_spec (j - k * m) (g k)), (Nat.eqb_spec j (k * m + g k)); try reflexivity; lia.
Qed.

Local Open Scope N_scope.

(* ---------- splitting the bits of the last index ---------- *)
Lemma bits_of_N_split a b j : bits_of_N (a + b) j = bits_of_N a (j / 2 ^ N.of_nat b) ++ bits_of_N b j.
Proof.
  apply val_inj; [rewrite app_length, !bits_of_N_length; reflexivity|].
  rewrite val_app, !val_bits_of_N, bits_of_N_length.
  replace (N.of_nat (a + b)) with (N.of_nat b + N.of_nat a) by lia. rewrite N.pow_add_r.
  set (p := 2 ^ N.of_nat b). set (q := 2 ^ N.of_nat a).
  assert (Hp : p <> 0) by (apply N.pow_nonzero; discriminate).
  assert (Hq : q <> 0) by (apply N.pow_nonzero; discriminate).
  rewrite N.mod_mul_r by assumption. lia.
Qed.

Lemma bits_of_indices_app a b : bits_of_indices (a ++ b) = bits_of_indices a ++ bits_of_indices b.
Proof. unfold bits_of_indices. apply flat_map_app. Qed.

Section Count.
Variable n cs : nat.
Hypothesis Hn : n = (3 * cs)%nat.
Hypothesis Hcs : (4 <= cs <= 8)%nat.
Variable prefix : list N.
Hypothesis Hlen : length prefix = (n - 1)%nat.

Definition ent_of (h : N) : list byte :=
  bytes_of_bits (bits_of_indices prefix ++ bits_of_N (11 - cs) h).
Definition want (h : N) : list bool := firstn cs (bits (sha256 (ent_of h))).

Lemma want_length h : length (want h) = cs.
Proof. unfold want. rewrite firstn_length, bits_length, sha256_length. lia. Qed.

Lemma checksum_okb_last j :
  checksum_okb sha256 (prefix ++ [j]) = (j mod 2 ^ N.of_nat cs =? val (want (j / 2 ^ N.of_nat cs))).
Proof.
  unfold checksum_okb, checksum_of_indices, entropy_of_indices.
  assert (Hl : length (prefix ++ [j]) = n) by (rewrite app_length, Hlen; cbn; lia).
  rewrite Hl. assert (Hd : (n / 3 = cs)%nat) by (rewrite Hn, Nat.mul_comm; apply Nat.div_mul; lia). rewrite Hd.
  rewrite bits_of_indices_app. unfold bits_of_indices at 2 4. cbn [flat_map]. rewrite app_nil_r.
  replace 11%nat with ((11 - cs) + cs)%nat at 2 4 by lia. rewrite bits_of_N_split.
  set (P := bits_of_indices prefix). assert (HP : length P = (11 * (n - 1))%nat) by (unfold P; rewrite bits_of_indices_length, Hlen; reflexivity).
  set (J1 := bits_of_N (11 - cs) (j / 2 ^ N.of_nat cs)). set (J2 := bits_of_N cs j).
  assert (H1 : length J1 = (11 - cs)%nat) by apply bits_of_N_length.
  assert (Hcut : (11 * n - cs = length (P ++ J1))%nat) by (rewrite app_length, HP, H1; lia).
  rewrite app_assoc, Hcut, firstn_app, skipn_app, Nat.sub_diag, firstn_all, skipn_all. cbn [firstn skipn app]. rewrite app_nil_r.
  change (firstn cs (bits (sha256 (bytes_of_bits (P ++ J1))))) with (want (j / 2 ^ N.of_nat cs)).
  destruct (bools_eqb J2 (want (j / 2 ^ N.of_nat cs))) eqn:B.
  - apply bools_eqb_eq in B. rewrite <- B. unfold J2. rewrite val_bits_of_N, N.eqb_refl. reflexivity.
  - symmetry. apply N.eqb_neq. intros E. rewrite <- (val_bits_of_N cs j) in E. fold J2 in E.
    apply val_inj in E; [|unfold J2; rewrite bits_of_N_length, want_length; reflexivity].
    rewrite E in B. rewrite (proj2 (bools_eqb_eq _ _) eq_refl) in B. discriminate.
Qed.

Definition g (h : nat) : nat := N.to_nat (val (want (N.of_nat h))).

Lemma g_bound h : (g h < 2 ^ cs)%nat.
Proof.
  unfold g. pose proof (val_bound (want (N.of_nat h))) as B. rewrite want_length in B.
  assert (N.to_nat (2 ^ N.of_nat cs) = (2 ^ cs)%nat).
  { clear. induction cs as [|c IH]; [reflexivity|]. rewrite Nat2N.inj_succ, N.pow_succ_r', Nat.pow_succ_r'. lia. }
  lia.
Qed.

Theorem count_last :
  length (filter (fun j => checksum_okb sha256 (prefix ++ [N.of_nat j])) (seq 0 2048)) = (2 ^ (11 - cs))%nat.
Proof.
  assert (H2048 : (2048 = 2 ^ (11 - cs) * 2 ^ cs)%nat).
  { rewrite <- Nat.pow_add_r. replace (11 - cs + cs)%nat with 11%nat by lia. reflexivity. }
  rewrite H2048.
  rewrite <- (count_mod (2 ^ cs) (2 ^ (11 - cs)) g) at 2; [|apply Nat.neq_0_lt_0, Nat.pow_nonzero; discriminate|apply g_bound].
  f_equal. apply filter_ext. intros j. rewrite checksum_okb_last. unfold g.
  assert (Hp : N.of_nat (2 ^ cs) = 2 ^ N.of_nat cs).
  { clear. induction cs as [|c IH]; [reflexivity|]. rewrite Nat2N.inj_succ, N.pow_succ_r', Nat.pow_succ_r'. lia. }
  assert (Hm : (2 ^ cs <> 0)%nat) by (apply Nat.pow_nonzero; discriminate).
  rewrite <- Hp.
  rewrite <- Nat2N.inj_div, <- Nat2N.inj_mod.
  set (m := (2 ^ cs)%nat) in *. set (w := val (want (N.of_nat (j / m)))).
  destruct (N.eqb_spec (N.of_nat (j mod m)) w), (Nat.eqb_spec (j mod m) (N.to_nat w)); try reflexivity; exfalso; lia.
Qed.
End Count.

(* ---------- at the API: acceptance of the candidate last words ---------- *)
Definition accepted_b (r : outcome (option error)) : bool :=
  match r with Ret None => true | _ => false end.

Theorem last_word_count lib (Hlib : lib_contract lib) name l n prefix : supported name l ->
  valid_wc n -> length prefix = (n - 1)%nat -> Forall (fun i => i < 2048) prefix ->
  length (filter (fun j => accepted_b (CheckMnemonicL lib (join [x20] (map (word_at (canon name)) (prefix ++ [N.of_nat j]))) l))
                 (seq 0 2048)) = (2 ^ (11 - n / 3))%nat.
Proof.
  intros Hs Hwc Hlen Hb. destruct (valid_wc_k _ Hwc) as [cs [Hn Hcs]].
  assert (Hd : (n / 3 = cs)%nat) by (rewrite Hn, Nat.mul_comm; apply Nat.div_mul; lia). rewrite Hd.
  rewrite <- (count_last n cs Hn Hcs prefix Hlen).
  f_equal. apply filter_ext_in. intros j Hj. apply in_seq in Hj.
  set (idx := prefix ++ [N.of_nat j]).
  assert (Hbi : Forall (fun i => i < 2048) idx) by (unfold idx; apply Forall_app; split; [exact Hb|constructor; [lia|constructor]]).
  assert (Hli : length idx = n) by (unfold idx; rewrite app_length, Hlen; cbn; lia).
  pose proof (canon_ok name l Hs) as Hok.
  rewrite (CheckMnemonicL_canon lib _ name l Hs).
  rewrite (CheckMnemonic_spec lib (tbl_get (canon name)) (tbl_get_bound _ Hok)).
  pose proof (words_of_indices_ok _ Hok idx Hbi) as Hws.
  rewrite (lib_sentence lib Hlib [x20] 0x20 _ is_sep_space Hws).
  rewrite split_join_words; [| |exact Hws].
  - unfold classify. rewrite map_length, Hli, (proj2 (valid_wc_b_spec _) Hwc). cbn [negb].
    rewrite (first_unknown_words _ Hok idx Hbi), (lookup_words _ Hok idx Hbi).
    destruct (checksum_okb sha256 idx); reflexivity.
  - intros E. apply (f_equal (@length _)) in E. rewrite map_length, Hli in E. cbn in E. lia.
Qed.
