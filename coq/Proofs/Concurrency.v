(* C12: the synchronisation discipline of lang.go's lazily built maps.
   Threads are arbitrary lists of map lookups (what CheckMnemonic / IsMnemonicValid do after the
   count gate; every other exported call touches no written variable - Proofs/Inventory.v);
   sync.Once has the Go memory model's contract: the closure runs once (EBegin, EWr, EFin), a
   second caller blocks while it runs, and the completion of the closure happens-before the
   return of every Do on that once (EPass only after EFin).  The scheduler is an arbitrary
   interleaving.  Theorems: any two conflicting accesses by different threads are ordered
   write < EFin o (writer's thread) < EPass o (reader's thread) < read (race_free); and every
   lookup reads the completed map of its own case (reads_own_map), as in sequential use. *)
From Coq Require Import List Arith Lia Bool.
From Coq Require Strings.String.
Import ListNotations.
Notation string := String.string.
Notation string_dec := String.string_dec.

(* One case of mapping(): once variable, variable written inside the closure, variable read after Do *)
Record mcase := { co : string; cw : string; cr : string }.

Inductive ev := EBegin (o : string) | EWr (c : mcase) | EFin (o : string) | EPass (o : string) | ERd (c : mcase).
Inductive ost := NotStarted | Running (t : nat) | Done.
Inductive phase := AtDo | Writing | Finishing | Reading.
Record thr := { ph : phase; todo : list mcase }.   (* current case = head of todo *)
(* vars: which closure's map a map variable currently holds (None = nil) *)
Record cfg := { th : nat -> thr; os : string -> ost; vars : string -> option mcase }.

Definition upd {K A} (dec : forall a b : K, {a = b} + {a <> b}) (f : K -> A) (k : K) (x : A) : K -> A :=
  fun j => if dec j k then x else f j.
Lemma upd_same {K A} dec (f : K -> A) k x : upd dec f k x k = x.
Proof. unfold upd. destruct (dec k k); [reflexivity|contradiction]. Qed.
Lemma upd_other {K A} dec (f : K -> A) k x j : j <> k -> upd dec f k x j = f j.
Proof. unfold upd. intros H. destruct (dec j k); [contradiction|reflexivity]. Qed.
Notation updt := (upd Nat.eq_dec).
Notation upds := (upd string_dec).

Inductive step : cfg -> nat * ev -> cfg -> Prop :=
| s_begin s t c r : th s t = {| ph := AtDo; todo := c :: r |} -> os s (co c) = NotStarted ->
    step s (t, EBegin (co c)) {| th := updt (th s) t {| ph := Writing; todo := c :: r |}; os := upds (os s) (co c) (Running t); vars := vars s |}
| s_pass s t c r : th s t = {| ph := AtDo; todo := c :: r |} -> os s (co c) = Done ->
    step s (t, EPass (co c)) {| th := updt (th s) t {| ph := Reading; todo := c :: r |}; os := os s; vars := vars s |}
| s_wr s t c r : th s t = {| ph := Writing; todo := c :: r |} ->
    step s (t, EWr c) {| th := updt (th s) t {| ph := Finishing; todo := c :: r |}; os := os s; vars := upds (vars s) (cw c) (Some c) |}
| s_fin s t c r : th s t = {| ph := Finishing; todo := c :: r |} ->
    step s (t, EFin (co c)) {| th := updt (th s) t {| ph := Reading; todo := c :: r |}; os := upds (os s) (co c) Done; vars := vars s |}
| s_rd s t c r : th s t = {| ph := Reading; todo := c :: r |} ->
    step s (t, ERd c) {| th := updt (th s) t {| ph := AtDo; todo := r |}; os := os s; vars := vars s |}.

(* traces oldest first *)
Inductive reach (s0 : cfg) : list (nat * ev) -> cfg -> Prop :=
| r_nil : reach s0 [] s0
| r_snoc tr s e s' : reach s0 tr s -> step s e s' -> reach s0 (tr ++ [e]) s'.

Definition init (prog : nat -> list mcase) : cfg :=
  {| th := fun t => {| ph := AtDo; todo := prog t |}; os := fun _ => NotStarted; vars := fun _ => None |}.

Definition at_ (tr : list (nat * ev)) (i : nat) (x : nat * ev) := nth_error tr i = Some x.

Lemma at_snoc tr e i x : at_ (tr ++ [e]) i x -> (i < length tr /\ at_ tr i x) \/ (i = length tr /\ x = e).
Proof.
  unfold at_. intros H. destruct (Nat.lt_ge_cases i (length tr)) as [L|G].
  - left. split; [exact L|]. rewrite nth_error_app1 in H by exact L. exact H.
  - right. rewrite nth_error_app2 in H by exact G.
    destruct (i - length tr) as [|k] eqn:E.
    + cbn in H. inversion H. split; [lia|reflexivity].
    + cbn in H. destruct k; discriminate.
Qed.
Lemma at_lt tr i x : at_ tr i x -> i < length tr.
Proof. unfold at_. intros H. apply nth_error_Some. rewrite H. discriminate. Qed.
Lemma at_old tr e i x : at_ tr i x -> at_ (tr ++ [e]) i x.
Proof. unfold at_. intros H. rewrite nth_error_app1; [exact H|]. apply (at_lt _ _ _ H). Qed.
Lemma at_new tr e : at_ (tr ++ [e]) (length tr) e.
Proof. unfold at_. rewrite nth_error_app2 by lia. rewrite Nat.sub_diag. reflexivity. Qed.

(* ---- the invariant ---- *)
Record Inv (tr : list (nat * ev)) (s : cfg) : Prop := {
  (* state vs trace *)
  i_ns : forall o, os s o = NotStarted -> forall i t, ~ at_ tr i (t, EBegin o);
  i_run : forall o t, os s o = Running t ->
            (forall i t', ~ at_ tr i (t', EFin o)) /\ (forall i t', at_ tr i (t', EBegin o) -> t' = t) /\ (exists i, at_ tr i (t, EBegin o));
  i_done : forall o, os s o = Done -> exists i t', at_ tr i (t', EFin o);
  i_wf : forall t c r, (th s t = {| ph := Writing; todo := c :: r |} \/ th s t = {| ph := Finishing; todo := c :: r |}) -> os s (co c) = Running t;
  i_rd : forall t c r, th s t = {| ph := Reading; todo := c :: r |} -> exists i, at_ tr i (t, EPass (co c)) \/ at_ tr i (t, EFin (co c));
  (* trace order facts *)
  t_wr : forall i t c, at_ tr i (t, EWr c) -> (exists b, b < i /\ at_ tr b (t, EBegin (co c))) /\ (forall f t', at_ tr f (t', EFin (co c)) -> i < f);
  t_rd : forall i t c, at_ tr i (t, ERd c) -> exists p, p < i /\ (at_ tr p (t, EPass (co c)) \/ at_ tr p (t, EFin (co c)));
  t_pass : forall i t o, at_ tr i (t, EPass o) -> exists f t', f < i /\ at_ tr f (t', EFin o);
  t_uniq : forall i j t t' o, at_ tr i (t, EBegin o) -> at_ tr j (t', EBegin o) -> t = t';
  t_fin : forall i t o, at_ tr i (t, EFin o) -> exists b, b < i /\ at_ tr b (t, EBegin o)
}.

Lemma inv_init prog : Inv [] (init prog).
Proof.
  assert (N : forall i x, ~ at_ [] i x) by (intros i x H; apply at_lt in H; cbn in H; lia).
  constructor; cbn; intros; try discriminate;
    try (match goal with H : at_ [] _ _ |- _ => exfalso; exact (N _ _ H) end).
  - apply N.
  - destruct H; discriminate.
Qed.

(* split every at_ hypothesis on the extended trace into old / new, killing impossible "new" cases *)
Ltac split_at :=
  repeat match goal with
  | H : at_ (_ ++ [_]) _ _ |- _ =>
      apply at_snoc in H; destruct H as [[? H] | [? H]]; [| try discriminate H; try (inversion H; subst; clear H)]
  end.
Ltac thr_cases s t t0 :=
  destruct (Nat.eq_dec t0 t) as [->|?]; [rewrite upd_same in * | rewrite upd_other in * by assumption].

Lemma inv_step tr s e s' : Inv tr s -> step s e s' -> Inv (tr ++ [e]) s'.
Proof.
  intros I St. destruct I as [Ins Irun Idone Iwf Ird Twr Trd Tpass Tuniq Tfin].
  assert (Lt := at_lt tr).
  destruct St as [s t c r Hth Hos | s t c r Hth Hos | s t c r Hth | s t c r Hth | s t c r Hth].
  - (* begin *)
    assert (NoFin : forall i t', ~ at_ tr i (t', EFin (co c))).
    { intros i t' H. destruct (Tfin _ _ _ H) as [b [_ Hb]]. exact (Ins _ Hos _ _ Hb). }
    constructor; cbn [th os].
    + intros o Ho i t0 H. destruct (string_dec o (co c)) as [->|Ne]; [rewrite upd_same in Ho; discriminate|].
      rewrite upd_other in Ho by exact Ne. split_at; [exact (Ins _ Ho _ _ H)| congruence].
    + intros o t0 Ho. destruct (string_dec o (co c)) as [->|Ne].
      * rewrite upd_same in Ho. inversion Ho; subst t0. repeat split.
        -- intros i t' H. split_at. exact (NoFin _ _ H).
        -- intros i t' H. split_at; [exfalso; exact (Ins _ Hos _ _ H)|reflexivity].
        -- exists (length tr). apply at_new.
      * rewrite upd_other in Ho by exact Ne. destruct (Irun _ _ Ho) as [A [B [i C]]]. repeat split.
        -- intros j t' H. split_at. exact (A _ _ H).
        -- intros j t' H. split_at; [exact (B _ _ H)|congruence].
        -- exists i. apply at_old. exact C.
    + intros o Ho. destruct (string_dec o (co c)) as [->|Ne]; [rewrite upd_same in Ho; discriminate|].
      rewrite upd_other in Ho by exact Ne. destruct (Idone _ Ho) as [i [t' H]]. exists i, t'. apply at_old. exact H.
    + intros t0 c0 r0 H. destruct (Nat.eq_dec t0 t) as [->|Ne].
      * rewrite upd_same in H. destruct H as [H|H]; inversion H; subst. apply upd_same.
      * rewrite upd_other in H by exact Ne. pose proof (Iwf _ _ _ H) as R.
        destruct (string_dec (co c0) (co c)) as [E|Ne']; [rewrite E in R; congruence|]. rewrite upd_other by exact Ne'. exact R.
    + intros t0 c0 r0 H. destruct (Nat.eq_dec t0 t) as [->|Ne]; [rewrite upd_same in H; discriminate|].
      rewrite upd_other in H by exact Ne. destruct (Ird _ _ _ H) as [i [A|A]]; exists i; [left|right]; apply at_old; exact A.
    + intros i t0 c0 H. split_at. destruct (Twr _ _ _ H) as [[b [Lb Hb]] F]. split.
      * exists b. split; [exact Lb|apply at_old; exact Hb].
      * intros f t' Hf. split_at. exact (F _ _ Hf).
    + intros i t0 c0 H. split_at. destruct (Trd _ _ _ H) as [p [Lp [A|A]]]; exists p; (split; [exact Lp|]); [left|right]; apply at_old; exact A.
    + intros i t0 o H. split_at. destruct (Tpass _ _ _ H) as [f [t' [Lf A]]]. exists f, t'. split; [exact Lf|apply at_old; exact A].
    + intros i j t0 t' o Hi Hj. split_at.
      * exact (Tuniq _ _ _ _ _ Hi Hj).
      * exfalso. first [exact (Ins _ Hos _ _ Hi) | exact (Ins _ Hos _ _ Hj)].
      * exfalso. first [exact (Ins _ Hos _ _ Hi) | exact (Ins _ Hos _ _ Hj)].
      * reflexivity.
    + intros i t0 o H. split_at. destruct (Tfin _ _ _ H) as [b [Lb A]]. exists b. split; [exact Lb|apply at_old; exact A].
  - (* pass *)
    constructor; cbn [th os].
    + intros o Ho i t0 H. split_at. exact (Ins _ Ho _ _ H).
    + intros o t0 Ho. destruct (Irun _ _ Ho) as [A [B [i C]]]. repeat split.
      * intros j t' H. split_at. exact (A _ _ H).
      * intros j t' H. split_at. exact (B _ _ H).
      * exists i. apply at_old. exact C.
    + intros o Ho. destruct (Idone _ Ho) as [i [t' H]]. exists i, t'. apply at_old. exact H.
    + intros t0 c0 r0 H. destruct (Nat.eq_dec t0 t) as [->|Ne]; [rewrite upd_same in H; destruct H; discriminate|].
      rewrite upd_other in H by exact Ne. exact (Iwf _ _ _ H).
    + intros t0 c0 r0 H. destruct (Nat.eq_dec t0 t) as [->|Ne].
      * rewrite upd_same in H. inversion H; subst. exists (length tr). left. apply at_new.
      * rewrite upd_other in H by exact Ne. destruct (Ird _ _ _ H) as [i [A|A]]; exists i; [left|right]; apply at_old; exact A.
    + intros i t0 c0 H. split_at. destruct (Twr _ _ _ H) as [[b [Lb Hb]] F]. split.
      * exists b. split; [exact Lb|apply at_old; exact Hb].
      * intros f t' Hf. split_at. exact (F _ _ Hf).
    + intros i t0 c0 H. split_at. destruct (Trd _ _ _ H) as [p [Lp [A|A]]]; exists p; (split; [exact Lp|]); [left|right]; apply at_old; exact A.
    + intros i t0 o H. split_at.
      * destruct (Tpass _ _ _ H) as [f [t' [Lf A]]]. exists f, t'. split; [exact Lf|apply at_old; exact A].
      * destruct (Idone _ Hos) as [f [t' A]]. exists f, t'. split; [subst; exact (Lt _ _ A)|apply at_old; exact A].
    + intros i j t0 t' o Hi Hj. split_at. exact (Tuniq _ _ _ _ _ Hi Hj).
    + intros i t0 o H. split_at. destruct (Tfin _ _ _ H) as [b [Lb A]]. exists b. split; [exact Lb|apply at_old; exact A].
  - (* write *)
    assert (R : os s (co c) = Running t) by (apply (Iwf t c r); left; exact Hth).
    destruct (Irun _ _ R) as [NoFin [_ [bi Bi]]].
    constructor; cbn [th os].
    + intros o Ho i t0 H. split_at. exact (Ins _ Ho _ _ H).
    + intros o t0 Ho. destruct (Irun _ _ Ho) as [A [B [i C]]]. repeat split.
      * intros j t' H. split_at. exact (A _ _ H).
      * intros j t' H. split_at. exact (B _ _ H).
      * exists i. apply at_old. exact C.
    + intros o Ho. destruct (Idone _ Ho) as [i [t' H]]. exists i, t'. apply at_old. exact H.
    + intros t0 c0 r0 H. destruct (Nat.eq_dec t0 t) as [->|Ne].
      * rewrite upd_same in H. destruct H as [H|H]; inversion H; subst. exact R.
      * rewrite upd_other in H by exact Ne. exact (Iwf _ _ _ H).
    + intros t0 c0 r0 H. destruct (Nat.eq_dec t0 t) as [->|Ne]; [rewrite upd_same in H; discriminate|].
      rewrite upd_other in H by exact Ne. destruct (Ird _ _ _ H) as [i [A|A]]; exists i; [left|right]; apply at_old; exact A.
    + intros i t0 c0 H. split_at.
      * destruct (Twr _ _ _ H) as [[b [Lb Hb]] F]. split.
        -- exists b. split; [exact Lb|apply at_old; exact Hb].
        -- intros f t' Hf. split_at. exact (F _ _ Hf).
      * split.
        -- exists bi. split; [subst; exact (Lt _ _ Bi)|apply at_old; exact Bi].
        -- intros f t' Hf. split_at. exfalso. exact (NoFin _ _ Hf).
    + intros i t0 c0 H. split_at. destruct (Trd _ _ _ H) as [p [Lp [A|A]]]; exists p; (split; [exact Lp|]); [left|right]; apply at_old; exact A.
    + intros i t0 o H. split_at. destruct (Tpass _ _ _ H) as [f [t' [Lf A]]]. exists f, t'. split; [exact Lf|apply at_old; exact A].
    + intros i j t0 t' o Hi Hj. split_at. exact (Tuniq _ _ _ _ _ Hi Hj).
    + intros i t0 o H. split_at. destruct (Tfin _ _ _ H) as [b [Lb A]]. exists b. split; [exact Lb|apply at_old; exact A].
  - (* finish *)
    assert (R : os s (co c) = Running t) by (apply (Iwf t c r); right; exact Hth).
    destruct (Irun _ _ R) as [NoFin [_ [bi Bi]]].
    constructor; cbn [th os].
    + intros o Ho i t0 H. destruct (string_dec o (co c)) as [->|Ne]; [rewrite upd_same in Ho; discriminate|].
      rewrite upd_other in Ho by exact Ne. split_at. exact (Ins _ Ho _ _ H).
    + intros o t0 Ho. destruct (string_dec o (co c)) as [->|Ne]; [rewrite upd_same in Ho; discriminate|].
      rewrite upd_other in Ho by exact Ne. destruct (Irun _ _ Ho) as [A [B [i C]]]. repeat split.
      * intros j t' H. split_at; [exact (A _ _ H)|congruence].
      * intros j t' H. split_at. exact (B _ _ H).
      * exists i. apply at_old. exact C.
    + intros o Ho. destruct (string_dec o (co c)) as [->|Ne].
      * exists (length tr), t. apply at_new.
      * rewrite upd_other in Ho by exact Ne. destruct (Idone _ Ho) as [i [t' H]]. exists i, t'. apply at_old. exact H.
    + intros t0 c0 r0 H. destruct (Nat.eq_dec t0 t) as [->|Ne]; [rewrite upd_same in H; destruct H; discriminate|].
      rewrite upd_other in H by exact Ne. pose proof (Iwf _ _ _ H) as R0.
      destruct (string_dec (co c0) (co c)) as [E|Ne']; [rewrite E in R0; congruence|]. rewrite upd_other by exact Ne'. exact R0.
    + intros t0 c0 r0 H. destruct (Nat.eq_dec t0 t) as [->|Ne].
      * rewrite upd_same in H. inversion H; subst. exists (length tr). right. apply at_new.
      * rewrite upd_other in H by exact Ne. destruct (Ird _ _ _ H) as [i [A|A]]; exists i; [left|right]; apply at_old; exact A.
    + intros i t0 c0 H. split_at. destruct (Twr _ _ _ H) as [[b [Lb Hb]] F]. split.
      * exists b. split; [exact Lb|apply at_old; exact Hb].
      * intros f t' Hf. split_at; [exact (F _ _ Hf)| subst; assumption].
    + intros i t0 c0 H. split_at. destruct (Trd _ _ _ H) as [p [Lp [A|A]]]; exists p; (split; [exact Lp|]); [left|right]; apply at_old; exact A.
    + intros i t0 o H. split_at. destruct (Tpass _ _ _ H) as [f [t' [Lf A]]]. exists f, t'. split; [exact Lf|apply at_old; exact A].
    + intros i j t0 t' o Hi Hj. split_at. exact (Tuniq _ _ _ _ _ Hi Hj).
    + intros i t0 o H. split_at.
      * destruct (Tfin _ _ _ H) as [b [Lb A]]. exists b. split; [exact Lb|apply at_old; exact A].
      * exists bi. split; [subst; exact (Lt _ _ Bi)|apply at_old; exact Bi].
  - (* read *)
    constructor; cbn [th os].
    + intros o Ho i t0 H. split_at. exact (Ins _ Ho _ _ H).
    + intros o t0 Ho. destruct (Irun _ _ Ho) as [A [B [i C]]]. repeat split.
      * intros j t' H. split_at. exact (A _ _ H).
      * intros j t' H. split_at. exact (B _ _ H).
      * exists i. apply at_old. exact C.
    + intros o Ho. destruct (Idone _ Ho) as [i [t' H]]. exists i, t'. apply at_old. exact H.
    + intros t0 c0 r0 H. destruct (Nat.eq_dec t0 t) as [->|Ne]; [rewrite upd_same in H; destruct H; discriminate|].
      rewrite upd_other in H by exact Ne. exact (Iwf _ _ _ H).
    + intros t0 c0 r0 H. destruct (Nat.eq_dec t0 t) as [->|Ne]; [rewrite upd_same in H; discriminate|].
      rewrite upd_other in H by exact Ne. destruct (Ird _ _ _ H) as [i [A|A]]; exists i; [left|right]; apply at_old; exact A.
    + intros i t0 c0 H. split_at. destruct (Twr _ _ _ H) as [[b [Lb Hb]] F]. split.
      * exists b. split; [exact Lb|apply at_old; exact Hb].
      * intros f t' Hf. split_at. exact (F _ _ Hf).
    + intros i t0 c0 H. split_at.
      * destruct (Trd _ _ _ H) as [p [Lp [A|A]]]; exists p; (split; [exact Lp|]); [left|right]; apply at_old; exact A.
      * destruct (Ird _ _ _ Hth) as [p [A|A]]; exists p; (split; [subst; exact (Lt _ _ A)|]); [left|right]; apply at_old; exact A.
    + intros i t0 o H. split_at. destruct (Tpass _ _ _ H) as [f [t' [Lf A]]]. exists f, t'. split; [exact Lf|apply at_old; exact A].
    + intros i j t0 t' o Hi Hj. split_at. exact (Tuniq _ _ _ _ _ Hi Hj).
    + intros i t0 o H. split_at. destruct (Tfin _ _ _ H) as [b [Lb A]]. exists b. split; [exact Lb|apply at_old; exact A].
Qed.

Lemma reach_inv prog tr s : reach (init prog) tr s -> Inv tr s.
Proof. induction 1 as [|tr s e s' _ IH St]; [apply inv_init | exact (inv_step _ _ _ _ IH St)]. Qed.

(* every case that shows up in a thread or in an event comes from the program texts *)
Section Race.
Variable table : list mcase.
(* computed on the generated table: a variable determines its once *)
Hypothesis wf_ww : forall c1 c2, In c1 table -> In c2 table -> cw c1 = cw c2 -> co c1 = co c2.
Hypothesis wf_wr : forall c1 c2, In c1 table -> In c2 table -> cw c1 = cr c2 -> co c1 = co c2.

Definition Tbl (tr : list (nat * ev)) (s : cfg) : Prop :=
  (forall t, incl (todo (th s t)) table) /\
  (forall i t c, at_ tr i (t, EWr c) \/ at_ tr i (t, ERd c) -> In c table).

Lemma tbl_step tr s e s' : Tbl tr s -> step s e s' -> Tbl (tr ++ [e]) s'.
Proof.
  intros [A B] St.
  assert (Old : forall i t c, at_ tr i (t, EWr c) \/ at_ tr i (t, ERd c) -> In c table) by exact B.
  destruct St as [s t c r Hth Hos | s t c r Hth Hos | s t c r Hth | s t c r Hth | s t c r Hth];
    (split; cbn [th os];
     [ intros t0; destruct (Nat.eq_dec t0 t) as [->|Ne];
       [ rewrite upd_same; cbn [todo]; specialize (A t); rewrite Hth in A; cbn [todo] in A;
         try exact A; intros x Hx; apply A; right; exact Hx
       | rewrite upd_other by exact Ne; apply A ]
     | intros i t0 c0 [H|H]; apply at_snoc in H; destruct H as [[_ H]|[_ H]];
       try (apply (Old i t0 c0); auto; fail); try discriminate H;
       inversion H; subst; specialize (A t); rewrite Hth in A; apply A; left; reflexivity ]).
Qed.

Lemma reach_tbl prog tr s : (forall t, incl (prog t) table) -> reach (init prog) tr s -> Tbl tr s.
Proof.
  intros P R. induction R as [|tr s e s' _ IH St].
  - split; [exact P|]. intros i t c [H|H]; apply at_lt in H; cbn in H; lia.
  - exact (tbl_step _ _ _ _ IH St).
Qed.

Definition conflict (e1 e2 : ev) : Prop :=
  match e1, e2 with
  | EWr c1, EWr c2 => cw c1 = cw c2
  | EWr c1, ERd c2 => cw c1 = cr c2
  | ERd c1, EWr c2 => cw c2 = cr c1
  | _, _ => False
  end.

(* Every pair of conflicting accesses by different threads is ordered by
   program order ; once-completion -> once-return ; program order. *)
Theorem race_free prog tr s :
  (forall t, incl (prog t) table) -> reach (init prog) tr s ->
  forall i j t1 t2 e1 e2, i < j -> at_ tr i (t1, e1) -> at_ tr j (t2, e2) -> t1 <> t2 -> conflict e1 e2 ->
  exists o f p, i < f /\ f < p /\ p < j /\ at_ tr f (t1, EFin o) /\ at_ tr p (t2, EPass o).
Proof.
  intros P R i j t1 t2 e1 e2 Lij H1 H2 Ne C.
  destruct (reach_inv _ _ _ R) as [_ _ _ _ _ Twr Trd Tpass Tuniq Tfin].
  destruct (reach_tbl _ _ _ P R) as [_ InT].
  destruct e1 as [|c1| | |c1], e2 as [|c2| | |c2]; cbn in C; try contradiction.
  - (* W / W *)
    exfalso. assert (E : co c1 = co c2) by (apply wf_ww; eauto).
    destruct (Twr _ _ _ H1) as [[b1 [_ B1]] _]. destruct (Twr _ _ _ H2) as [[b2 [_ B2]] _].
    rewrite E in B1. exact (Ne (Tuniq _ _ _ _ _ B1 B2)).
  - (* W then R *)
    assert (E : co c1 = co c2) by (apply wf_wr; eauto).
    destruct (Twr _ _ _ H1) as [[b1 [_ B1]] F1].
    destruct (Trd _ _ _ H2) as [p [Lp [Pp|Pp]]].
    + destruct (Tpass _ _ _ Pp) as [f [t' [Lf Ff]]]. rewrite <- E in Ff, Pp.
      assert (t' = t1). { destruct (Tfin _ _ _ Ff) as [b [_ Bb]]. exact (Tuniq _ _ _ _ _ Bb B1). } subst t'.
      exists (co c1), f, p. repeat split; try assumption. exact (F1 _ _ Ff).
    + exfalso. destruct (Tfin _ _ _ Pp) as [b [_ Bb]]. rewrite <- E in Bb. exact (Ne (Tuniq _ _ _ _ _ B1 Bb)).
  - (* R then W: impossible *)
    exfalso. assert (E : co c2 = co c1) by (apply wf_wr; eauto).
    destruct (Twr _ _ _ H2) as [[b2 [_ B2]] F2].
    destruct (Trd _ _ _ H1) as [p [Lp [Pp|Pp]]].
    + destruct (Tpass _ _ _ Pp) as [f [t' [Lf Ff]]]. rewrite <- E in Ff. pose proof (F2 _ _ Ff). lia.
    + destruct (Tfin _ _ _ Pp) as [b [_ Bb]]. rewrite <- E in Bb. exact (Ne (Tuniq _ _ _ _ _ Bb B2)).
Qed.

(* ---------- what a lookup reads ---------- *)
(* two more facts computed on the generated table: a once guards one case only, and the variable returned
   after Do is the variable the closure builds *)
Hypothesis wf_oo : forall c1 c2, In c1 table -> In c2 table -> co c1 = co c2 -> c1 = c2.
Hypothesis wf_rw : forall c, In c table -> cr c = cw c.

Record VInv (s : cfg) : Prop := {
  v_done : forall c, In c table -> os s (co c) = Done -> vars s (cw c) = Some c;
  v_fin : forall t c r, th s t = {| ph := Finishing; todo := c :: r |} -> vars s (cw c) = Some c
}.

Lemma vinv_step tr s e s' : Inv tr s -> Tbl tr s -> VInv s -> step s e s' -> VInv s'.
Proof.
  intros I [Ttodo _] [Vd Vf] St. destruct I as [Ins Irun Idone Iwf Ird Twr Trd Tpass Tuniq Tfin].
  assert (InT : forall t c r, todo (th s t) = c :: r -> In c table).
  { intros t c r H. apply (Ttodo t). rewrite H. left. reflexivity. }
  destruct St as [s t c r Hth Hos | s t c r Hth Hos | s t c r Hth | s t c r Hth | s t c r Hth]; constructor; cbn [th os vars].
  - (* begin *) intros c0 Hin Hd. destruct (string_dec (co c0) (co c)) as [E|Ne]; [rewrite E, upd_same in Hd; discriminate|].
    rewrite upd_other in Hd by exact Ne. exact (Vd c0 Hin Hd).
  - intros t0 c0 r0 H. destruct (Nat.eq_dec t0 t) as [->|Ne]; [rewrite upd_same in H; discriminate|].
    rewrite upd_other in H by exact Ne. exact (Vf _ _ _ H).
  - (* pass *) exact Vd.
  - intros t0 c0 r0 H. destruct (Nat.eq_dec t0 t) as [->|Ne]; [rewrite upd_same in H; discriminate|].
    rewrite upd_other in H by exact Ne. exact (Vf _ _ _ H).
  - (* write *) intros c0 Hin Hd.
    assert (Hc : In c table) by (apply (InT t c r); rewrite Hth; reflexivity).
    assert (Hrun : os s (co c) = Running t) by (apply (Iwf t c r); left; exact Hth).
    destruct (string_dec (cw c0) (cw c)) as [E|Ne].
    + exfalso. rewrite (wf_ww c0 c Hin Hc E) in Hd. congruence.
    + rewrite upd_other by exact Ne. exact (Vd c0 Hin Hd).
  - intros t0 c0 r0 H. destruct (Nat.eq_dec t0 t) as [->|Ne].
    + rewrite upd_same in H. inversion H; subst. apply upd_same.
    + rewrite upd_other in H by exact Ne.
      assert (Hc : In c table) by (apply (InT t c r); rewrite Hth; reflexivity).
      assert (Hc0 : In c0 table) by (apply (InT t0 c0 r0); rewrite H; reflexivity).
      destruct (string_dec (cw c0) (cw c)) as [E|Ne'].
      * exfalso. pose proof (wf_ww c0 c Hc0 Hc E) as Eo.
        pose proof (Iwf t c r (or_introl Hth)) as R1. pose proof (Iwf t0 c0 r0 (or_intror H)) as R0.
        rewrite Eo in R0. rewrite R1 in R0. inversion R0. congruence.
      * rewrite upd_other by exact Ne'. exact (Vf _ _ _ H).
  - (* finish *) intros c0 Hin Hd.
    assert (Hc : In c table) by (apply (InT t c r); rewrite Hth; reflexivity).
    destruct (string_dec (co c0) (co c)) as [E|Ne].
    + rewrite (wf_oo c0 c Hin Hc E). exact (Vf _ _ _ Hth).
    + rewrite upd_other in Hd by exact Ne. exact (Vd c0 Hin Hd).
  - intros t0 c0 r0 H. destruct (Nat.eq_dec t0 t) as [->|Ne]; [rewrite upd_same in H; discriminate|].
    rewrite upd_other in H by exact Ne. exact (Vf _ _ _ H).
  - (* read *) exact Vd.
  - intros t0 c0 r0 H. destruct (Nat.eq_dec t0 t) as [->|Ne]; [rewrite upd_same in H; discriminate|].
    rewrite upd_other in H by exact Ne. exact (Vf _ _ _ H).
Qed.

Lemma reach_vinv prog tr s : (forall t, incl (prog t) table) -> reach (init prog) tr s -> VInv s.
Proof.
  intros P R. induction R as [|tr s e s' R IH St].
  - constructor; cbn; intros; discriminate.
  - exact (vinv_step tr s e s' (reach_inv _ _ _ R) (reach_tbl _ _ _ P R) IH St).
Qed.

(* In every reachable state of every interleaving, a thread that is about to read the map of case c
   (it has returned from once.Do) finds the map built by c's own closure - what it finds when run alone. *)
Theorem reads_own_map prog tr s t c r :
  (forall t, incl (prog t) table) -> reach (init prog) tr s ->
  th s t = {| ph := Reading; todo := c :: r |} -> vars s (cr c) = Some c.
Proof.
  intros P R Hth. pose proof (reach_inv _ _ _ R) as I. destruct (reach_tbl _ _ _ P R) as [Ttodo _].
  destruct (reach_vinv _ _ _ P R) as [Vd _].
  assert (Hc : In c table) by (apply (Ttodo t); rewrite Hth; left; reflexivity).
  rewrite (wf_rw c Hc). apply (Vd c Hc).
  destruct I as [Ins Irun Idone Iwf Ird Twr Trd Tpass Tuniq Tfin].
  (* a Fin of this once is in the trace, so it is neither NotStarted nor Running *)
  assert (HF : exists f t', at_ tr f (t', EFin (co c))).
  { destruct (Ird _ _ _ Hth) as [i [A|A]]; [destruct (Tpass _ _ _ A) as [f [t' [_ F]]]; exists f, t'; exact F|exists i, t; exact A]. }
  destruct HF as [f [t' F]].
  destruct (os s (co c)) eqn:E; [|exfalso|reflexivity].
  - exfalso. destruct (Tfin _ _ _ F) as [b [_ B]]. exact (Ins _ E _ _ B).
  - destruct (Irun _ _ E) as [NoF _]. exact (NoF _ _ F).
Qed.
End Race.
Print Assumptions race_free.
Print Assumptions reads_own_map.
