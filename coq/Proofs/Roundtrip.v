(* Sentences made of table words: the indices are recovered, the entropy is
   recovered (C05), every sentence with a correct checksum is accepted (C02),
   generator output in particular. *)
From Coq Require Import ZifyBool ZifyNat ZifyN.
From B39 Require Import Lib.Base Lib.Bits Lib.Sha256 Lib.Utf8 Lib.Nfkd Lib.TableWF Model.GenTypes Model.Model.
From B39 Require Import Spec.Bip39Spec Proofs.Gates Proofs.Tables Proofs.BitsMore Proofs.Encode Proofs.Validate Proofs.Unicode Proofs.LibContract.
Local Open Scope N_scope.

Section Table.
Variable tbl : table.
Hypothesis Htbl : table_ok tbl = true.

Lemma word_at_in i : i < 2048 -> In (word_at tbl i) tbl.
Proof.
  intros Hi. unfold word_at. apply nth_In. rewrite (tok_length _ Htbl). lia.
Qed.

Lemma tbl_get_word_at i : i < 2048 -> tbl_get tbl (word_at tbl i) = Some i.
Proof.
  intros Hi. unfold tbl_get.
  assert (Hn : nth_error tbl (N.to_nat i) = Some (word_at tbl i)).
  { unfold word_at. apply nth_error_nth'. rewrite (tok_length _ Htbl). lia. }
  rewrite (index_of_nth (tok_nodup _ Htbl) _ Hn). rewrite N2Nat.id. reflexivity.
Qed.

Lemma tbl_get_bound w i : tbl_get tbl w = Some i -> i < 2048.
Proof.
  unfold tbl_get. destruct (index_of w tbl) as [j|] eqn:E; [|discriminate]. intros H. injection H as <-.
  apply index_of_Some in E. assert (j < length tbl)%nat by (apply nth_error_Some; congruence).
  rewrite (tok_length _ Htbl) in *. lia.
Qed.

Lemma tbl_get_word w i : tbl_get tbl w = Some i -> w = word_at tbl i /\ In w tbl.
Proof.
  unfold tbl_get. destruct (index_of w tbl) as [j|] eqn:E; [|discriminate]. intros H. injection H as <-.
  apply index_of_Some in E. split.
  - unfold word_at. rewrite Nat2N.id. symmetry. apply nth_error_nth. exact E.
  - eapply nth_error_In. exact E.
Qed.

Lemma words_of_indices_ok idx : Forall (fun i => i < 2048) idx -> words_ok (map (word_at tbl) idx).
Proof.
  intros H. unfold words_ok. rewrite Forall_map. eapply Forall_impl; [|exact H]. cbn. intros i Hi.
  apply (tok_words _ Htbl). apply word_at_in. exact Hi.
Qed.

Lemma lookup_words idx : Forall (fun i => i < 2048) idx -> lookup_all (tbl_get tbl) (map (word_at tbl) idx) = Some idx.
Proof.
  induction 1 as [|i is Hi _ IH]; cbn [map lookup_all]; [reflexivity|]. rewrite (tbl_get_word_at i Hi), IH. reflexivity.
Qed.

Lemma first_unknown_words idx : Forall (fun i => i < 2048) idx -> forall k, first_unknown (tbl_get tbl) (map (word_at tbl) idx) k = None.
Proof.
  induction 1 as [|i is Hi _ IH]; intros k; cbn [map first_unknown]; [reflexivity|]. rewrite (tbl_get_word_at i Hi). apply IH.
Qed.

(* tokens that all look up are the words of their indices *)
Lemma lookup_all_words toks idx : lookup_all (tbl_get tbl) toks = Some idx -> toks = map (word_at tbl) idx /\ Forall (fun w => In w tbl) toks.
Proof.
  revert idx. induction toks as [|t r IH]; intros idx H; cbn [lookup_all] in H.
  - injection H as <-. split; [reflexivity|constructor].
  - destruct (tbl_get tbl t) as [i|] eqn:E; [|discriminate]. destruct (lookup_all (tbl_get tbl) r) as [is|]; [|discriminate].
    injection H as <-. destruct (IH is eq_refl) as [-> F]. destruct (tbl_get_word _ _ E) as [-> Hin].
    split; [reflexivity|constructor; assumption].
Qed.
End Table.

(* ---------- the indices of an entropy ---------- *)
Lemma indices_bits ent k : length ent = (4 * k)%nat -> (k <= 8)%nat ->
  bits_of_indices (bip39_indices sha256 ent) = bits ent ++ firstn k (bits (sha256 ent)) /\
  Forall (fun i => i < 2048) (bip39_indices sha256 ent) /\
  length (bip39_indices sha256 ent) = (3 * k)%nat.
Proof.
  intros Hlen Hk. unfold bip39_indices, checksum_bits.
  assert (Hdiv : (length ent / 4 = k)%nat) by (rewrite Hlen, Nat.mul_comm; apply Nat.div_mul; lia). rewrite Hdiv.
  set (B := bits ent ++ firstn k (bits (sha256 ent))).
  assert (HB : length B = (11 * (k * 3))%nat).
  { unfold B. rewrite app_length, bits_length, firstn_length, bits_length, sha256_length. lia. }
  split; [apply bits_of_vals; exact HB|]. split.
  - apply (vals_bound 11 (k * 3) B HB).
  - rewrite map_length, chunks_length. lia.
Qed.

Lemma indices_entropy ent : valid_ent (length ent) ->
  entropy_of_indices (bip39_indices sha256 ent) = ent /\ checksum_okb sha256 (bip39_indices sha256 ent) = true.
Proof.
  intros Hv. destruct (valid_ent_k _ Hv) as [k [Hlen Hk]].
  destruct (indices_bits ent k Hlen Hk) as [HB [_ Hn]].
  assert (Hd : (3 * k / 3 = k)%nat) by (rewrite Nat.mul_comm; apply Nat.div_mul; lia).
  assert (HE : entropy_of_indices (bip39_indices sha256 ent) = ent).
  { unfold entropy_of_indices. rewrite HB, Hn, Hd.
    replace (11 * (3 * k) - k)%nat with (length (bits ent)) by (rewrite bits_length; lia).
    rewrite firstn_app, Nat.sub_diag, firstn_all. cbn [firstn]. rewrite app_nil_r. apply bytes_of_bits_bits. }
  split; [exact HE|].
  unfold checksum_okb. rewrite HE. unfold checksum_of_indices. rewrite HB, Hn, Hd.
  replace (11 * (3 * k) - k)%nat with (length (bits ent)) by (rewrite bits_length; lia).
  rewrite skipn_app, Nat.sub_diag, skipn_all. cbn [skipn app]. apply bools_eqb_eq. reflexivity.
Qed.

Lemma valid_ent_wc ent : valid_ent (length ent) -> valid_wc (length (bip39_indices sha256 ent)).
Proof.
  intros Hv. rewrite indices_length. unfold valid_ent, valid_wc in *. cbn [In] in *.
  repeat destruct Hv as [Hv|Hv]; try contradiction; rewrite <- Hv; cbn; tauto.
Qed.

Section Table2.
Variable tbl : table.
Hypothesis Htbl : table_ok tbl = true.

(* ---------- C05: the spec decoder recovers the entropy from the sentence ---------- *)
Theorem decode_encode sep c ent : is_sep sep c -> is_space_cp c = true -> valid_ent (length ent) ->
  decode_with tbl (encode_with sha256 sep tbl ent) = Some ent.
Proof.
  intros Hsep Hc Hv. destruct (valid_ent_k _ Hv) as [k [Hlen Hk]].
  destruct (indices_bits ent k Hlen Hk) as [_ [Hb Hn]].
  unfold decode_with, encode_with.
  rewrite (ws_tokens_join sep c); [| exact Hsep | exact Hc | | apply (words_of_indices_ok tbl Htbl); exact Hb].
  - rewrite (lookup_words tbl Htbl _ Hb). rewrite (proj1 (indices_entropy ent Hv)). reflexivity.
  - intros E. apply (f_equal (@length _)) in E. rewrite map_length, Hn in E. cbn in E.
    unfold valid_ent in Hv. cbn [In] in Hv. lia.
Qed.

(* ---------- C02: every sentence of table words with a correct checksum is accepted ---------- *)
Section Lib.
Variable lib : list byte -> list byte.
Hypothesis Hlib : lib_contract lib.

Lemma xsafe_sentence sep c ws : is_sep sep c -> words_ok ws -> xsafe (join sep ws) = true.
Proof.
  intros Hsep Hws. unfold xsafe. rewrite (nfkd_join sep c ws Hsep Hws).
  rewrite (utf8_decode_join [x20] 0x20 ws is_sep_space Hws). unfold xsafe_cps.
  induction Hws as [|w rest Hw Hrest IH]; [reflexivity|].
  destruct rest as [|x rest']; [cbn [map join]; exact (wok_xsafe w Hw)|].
  change (map utf8_decode (w :: x :: rest')) with (utf8_decode w :: map utf8_decode (x :: rest')).
  destruct (map utf8_decode (x :: rest')) as [|y ys] eqn:Em; [discriminate|]. rewrite join_cons. cbn [app].
  rewrite run_ok_app_break by (vm_compute; reflexivity).
  rewrite IH. pose proof (wok_xsafe w Hw) as Hx. unfold xsafe_cps in Hx. rewrite Hx. reflexivity.
Qed.

Lemma lib_sentence sep c ws : is_sep sep c -> words_ok ws -> lib (join sep ws) = join [x20] ws.
Proof.
  intros Hsep Hws. rewrite (LC1 _ Hlib) by (first [apply (valid_join sep c); assumption|apply (xsafe_sentence sep c); assumption]).
  apply (nfkd_join sep c); assumption.
Qed.

Theorem accept_valid sep c idx : is_sep sep c ->
  valid_wc (length idx) -> Forall (fun i => i < 2048) idx -> checksum_okb sha256 idx = true ->
  CheckMnemonic lib (tbl_get tbl) (join sep (map (word_at tbl) idx)) = Ret None.
Proof.
  intros Hsep Hwc Hb Hcs.
  rewrite (CheckMnemonic_spec lib (tbl_get tbl) (tbl_get_bound tbl Htbl)).
  pose proof (words_of_indices_ok tbl Htbl idx Hb) as Hws.
  rewrite (lib_sentence sep c _ Hsep Hws).
  rewrite split_join_words; [| | exact Hws].
  - unfold classify. rewrite map_length. rewrite (proj2 (valid_wc_b_spec _) Hwc). cbn [negb].
    rewrite (first_unknown_words tbl Htbl idx Hb), (lookup_words tbl Htbl idx Hb), Hcs. reflexivity.
  - intros E. apply (f_equal (@length _)) in E. rewrite map_length in E. cbn in E.
    unfold valid_wc in Hwc. cbn [In] in Hwc. lia.
Qed.

Theorem roundtrip sep c ent : is_sep sep c -> valid_ent (length ent) ->
  CheckMnemonic lib (tbl_get tbl) (encode_with sha256 sep tbl ent) = Ret None.
Proof.
  intros Hsep Hv. destruct (valid_ent_k _ Hv) as [k [Hlen Hk]].
  destruct (indices_bits ent k Hlen Hk) as [_ [Hb _]].
  unfold encode_with. apply (accept_valid sep c); [exact Hsep|apply valid_ent_wc; exact Hv|exact Hb|].
  apply (indices_entropy ent Hv).
Qed.
End Lib.
End Table2.

(* ---------- C01 shape: the words of the sentence ---------- *)
Lemma has_sub_space w : forallb (fun b => negb (Byte.eqb b x20)) w = true -> has_sub [x20] w = false.
Proof.
  induction w as [|b w IH]; intros H; [reflexivity|]. cbn [forallb] in H. apply andb_prop in H as [Hb Hw].
  cbn [has_sub is_prefix]. rewrite (IH Hw). apply negb_true_iff in Hb.
  rewrite <- Hb. destruct (Byte.eqb x20 b) eqn:E; [|destruct w; reflexivity].
  apply byte_eqb_eq in E. subst b. rewrite byte_eqb_refl in Hb. discriminate.
Qed.

Theorem sentence_shape name lg ent : supported name lg -> valid_ent (length ent) ->
  exists ws, bip39_encode sha256 name ent = join (separator name) ws /\ length ws = (length ent / 4 * 3)%nat /\
    Forall (fun w => In w (canon name) /\ w <> [] /\ has_sub (separator name) w = false) ws.
Proof.
  intros Hs Hv. exists (map (word_at (canon name)) (bip39_indices sha256 ent)).
  split; [reflexivity|]. split; [rewrite map_length; apply indices_length|].
  destruct (valid_ent_k _ Hv) as [k [Hlen Hk]]. destruct (indices_bits ent k Hlen Hk) as [_ [Hb _]].
  pose proof (list_of_ok lg) as Hok. rewrite (list_of_canon name lg Hs) in Hok.
  rewrite Forall_map. eapply Forall_impl; [|exact Hb]. cbn. intros i Hi.
  pose proof (word_at_in _ Hok i Hi) as Hin. pose proof (tok_words _ Hok _ Hin) as Hw.
  split; [exact Hin|]. split; [exact (wok_nonempty _ Hw)|].
  unfold separator. destruct (String.eqb name "Japanese"); [exact (wok_nou3000 _ Hw)|apply has_sub_space; exact (wok_nospace _ Hw)].
Qed.
