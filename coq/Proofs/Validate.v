(* mnemonic.go:CheckMnemonic decides exactly the specification's classifier on
   the 0x20-separated tokens of the normalised string: for every string, every
   normaliser and every word->index map with values below 2048. *)
From Coq Require Import ZifyBool ZifyNat ZifyN.
From B39 Require Import Lib.Base Lib.Bits Lib.Sha256 Model.GenTypes Model.Model.
From B39 Require Import Gen.Gates Spec.Bip39Spec Proofs.Gates Proofs.BitsMore Proofs.Encode.
Ltac Zify.zify_post_hook ::= Z.to_euclidean_division_equations.
Local Open Scope N_scope.

Definition err_of_verdict (v : verdict) : option error :=
  match v with
  | VOk => None
  | VWordLen => Some ErrWordLen
  | VUnknown t i => Some (ErrUnknownWord t i)
  | VChecksum => Some ErrChecksumIncorrect
  end.

Lemma bools_eqb_eq a : forall b, bools_eqb a b = true <-> a = b.
Proof.
  induction a as [|x a IH]; intros [|y b]; cbn [bools_eqb]; split; intros H; try reflexivity; try discriminate.
  - apply andb_prop in H as [H1 H2]. apply Bool.eqb_prop in H1. apply IH in H2. subst. reflexivity.
  - injection H as -> ->. rewrite Bool.eqb_reflx. cbn. apply IH. reflexivity.
Qed.

Lemma valid_wc_b_spec n : valid_wc_b n = true <-> valid_wc n.
Proof.
  unfold valid_wc_b, valid_wc. cbn [existsb In]. rewrite !orb_true_iff, !Nat.eqb_eq. intuition (try discriminate; auto).
Qed.

Lemma valid_wc_k n : valid_wc n -> exists k, n = (3 * k)%nat /\ (4 <= k <= 8)%nat.
Proof. unfold valid_wc. cbn [In]. intros H. exists (n / 3)%nat. repeat destruct H as [H|H]; subst; try contradiction; cbn; lia. Qed.

Lemma bits_of_indices_length idx : length (bits_of_indices idx) = (11 * length idx)%nat.
Proof. unfold bits_of_indices. rewrite (flat_map_const_length (bits_of_N 11) 11); [reflexivity|]. intros x. apply bits_of_N_length. Qed.

Lemma lookup_all_length get toks idx : lookup_all get toks = Some idx -> length idx = length toks.
Proof.
  revert idx. induction toks as [|t r IH]; intros idx H; cbn [lookup_all] in H.
  - injection H as <-. reflexivity.
  - destruct (get t); [|discriminate]. destruct (lookup_all get r) as [is|]; [|discriminate].
    injection H as <-. cbn [length]. rewrite (IH is eq_refl). reflexivity.
Qed.

Lemma first_unknown_none_lookup get toks : forall i, first_unknown get toks i = None -> exists idx, lookup_all get toks = Some idx.
Proof.
  induction toks as [|t r IH]; intros i H; cbn [first_unknown lookup_all] in *; [eexists; reflexivity|].
  destruct (get t); [|discriminate]. destruct (IH _ H) as [is ->]. eexists; reflexivity.
Qed.

Lemma first_unknown_some_lookup get toks : forall i p, first_unknown get toks i = Some p -> lookup_all get toks = None.
Proof.
  induction toks as [|t r IH]; intros i p H; cbn [first_unknown lookup_all] in *; [discriminate|].
  destruct (get t); [|reflexivity]. rewrite (IH _ _ H). reflexivity.
Qed.

Section Check.
Variable lib : list byte -> list byte.
Variable get : list byte -> option N.
Hypothesis get_bound : forall w i, get w = Some i -> i < 2048.

Lemma lookup_all_bound toks idx : lookup_all get toks = Some idx -> Forall (fun i => i < 2048) idx.
Proof.
  revert idx. induction toks as [|t r IH]; intros idx H; cbn [lookup_all] in H.
  - injection H as <-. constructor.
  - destruct (get t) as [i|] eqn:E; [|discriminate]. destruct (lookup_all get r) as [is|]; [|discriminate].
    injection H as <-. constructor; [eapply get_bound; exact E|apply IH; reflexivity].
Qed.

Lemma val_bits_of_indices_cons i is : i < 2048 ->
  val (bits_of_indices (i :: is)) = i * 2 ^ N.of_nat (11 * length is) + val (bits_of_indices is).
Proof.
  intros Hi. unfold bits_of_indices. cbn [flat_map]. fold (bits_of_indices is).
  rewrite val_app, bits_of_indices_length, val_bits_of_N. rewrite N.mod_small by exact Hi. reflexivity.
Qed.

(* the loop that rebuilds the big integer *)
Lemma assemble_spec toks : forall wc i acc, (i + length toks = wc)%nat ->
  assemble get toks wc i acc =
  match first_unknown get toks i with
  | Some p => inl p
  | None => match lookup_all get toks with
            | Some idx => inr (acc + val (bits_of_indices idx))
            | None => inr acc
            end
  end.
Proof.
  induction toks as [|t r IH]; intros wc i acc Hwc; cbn [assemble first_unknown lookup_all].
  - cbn. rewrite N.add_0_r. reflexivity.
  - destruct (get t) as [ix|] eqn:E; [|reflexivity].
    cbn [length] in Hwc. rewrite (IH wc (S i)) by lia.
    destruct (first_unknown get r (S i)) as [p|] eqn:F; [reflexivity|].
    destruct (first_unknown_none_lookup _ _ _ F) as [is His]. rewrite His.
    rewrite val_bits_of_indices_cons by (eapply get_bound; exact E).
    rewrite (lookup_all_length _ _ _ His). rewrite N.shiftl_mul_pow2.
    replace (N.of_nat ((wc - i - 1) * 11)) with (N.of_nat (11 * length r)) by lia.
    f_equal. lia.
Qed.

(* the checksum byte of a hash, cut to k bits *)
Lemma cs_val E k : (k <= 8)%nat ->
  be_to_N (firstn 1 (sha256 E)) / 2 ^ (8 - N.of_nat k) = val (firstn k (bits (sha256 E))).
Proof.
  intros Hk. pose proof (sha256_length E) as HL. destruct (sha256 E) as [|h0 hrest] eqn:EH; [discriminate|].
  cbn [firstn].
  assert (Hcs : firstn k (bits (h0 :: hrest)) = firstn k (bits_of_byte h0)).
  { cbn [bits flat_map]. rewrite firstn_app. unfold bits_of_byte at 2. rewrite bits_of_N_length.
    replace (k - 8)%nat with 0%nat by lia. cbn [firstn]. rewrite app_nil_r. reflexivity. }
  rewrite Hcs, val_firstn_byte by lia. unfold be_to_N. cbn [fold_left]. rewrite N.mul_0_l, N.add_0_l. reflexivity.
Qed.

(* everything after the loop, for a list of in-range indices of valid length *)
Lemma tail_spec idx k : length idx = (3 * k)%nat -> (4 <= k <= 8)%nat ->
  let entBig := val (bits_of_indices idx) in
  let B1 := firstn (11 * length idx - length idx / 3) (bits_of_indices idx) in
  let B2 := skipn (11 * length idx - length idx / 3) (bits_of_indices idx) in
  entBig / 2 ^ N.of_nat k = val B1 /\ N.land entBig (2 ^ N.of_nat k - 1) = val B2 /\
  length B1 = (8 * (4 * k))%nat /\ length B2 = k.
Proof.
  intros Hlen Hk entBig B1 B2.
  assert (Hd : (length idx / 3 = k)%nat) by (rewrite Hlen, Nat.mul_comm; apply Nat.div_mul; lia).
  pose proof (bits_of_indices_length idx) as HB.
  assert (HB1 : length B1 = (8 * (4 * k))%nat) by (unfold B1; rewrite firstn_length; lia).
  assert (HB2 : length B2 = k) by (unfold B2; rewrite skipn_length; lia).
  assert (Hsplit : bits_of_indices idx = B1 ++ B2) by (unfold B1, B2; symmetry; apply firstn_skipn).
  unfold entBig. rewrite Hsplit, val_app, HB2.
  pose proof (val_bound B2) as Hb2. rewrite HB2 in Hb2.
  set (p := 2 ^ N.of_nat k) in *. assert (Hp : p <> 0) by (apply N.pow_nonzero; discriminate).
  repeat split; try assumption.
  - rewrite N.div_add_l by exact Hp. rewrite N.div_small by exact Hb2. lia.
  - replace (p - 1) with (N.ones (N.of_nat k)) by (rewrite N.ones_equiv; unfold p; lia).
    rewrite N.land_ones. fold p. rewrite N.add_comm, N.mod_add by exact Hp. apply N.mod_small. exact Hb2.
Qed.

Theorem CheckMnemonic_spec s :
  CheckMnemonic lib get s = Ret (err_of_verdict (classify sha256 get (split_at (fun b => Byte.eqb b x20) (lib s)))).
Proof.
  unfold CheckMnemonic, CheckMnemonic_gen, classify.
  set (toks := split_at (fun b => Byte.eqb b x20) (lib s)).
  destruct (gate_count (Z.of_nat (length toks))) eqn:Hg.
  - assert (Hn : valid_wc_b (length toks) = false).
    { destruct (valid_wc_b (length toks)) eqn:V; [|reflexivity]. exfalso.
      apply valid_wc_b_spec, valid_wc_nat, gate_count_spec in V. congruence. }
    rewrite Hn. cbn. rewrite gate_count_err_is. reflexivity.
  - assert (Hv : valid_wc (length toks)) by (apply valid_wc_nat, gate_count_spec; exact Hg).
    rewrite (proj2 (valid_wc_b_spec _) Hv). cbn [negb].
    rewrite (assemble_spec toks (length toks) 0 0) by lia.
    destruct (first_unknown get toks 0) as [[t i]|] eqn:F; [reflexivity|].
    destruct (first_unknown_none_lookup _ _ _ F) as [idx His]. rewrite His.
    pose proof (lookup_all_length _ _ _ His) as Hl. rewrite <- Hl in *.
    destruct (valid_wc_k _ Hv) as [k [Hlen Hk]].
    assert (Hd : (length idx / 3 = k)%nat) by (rewrite Hlen, Nat.mul_comm; apply Nat.div_mul; lia).
    destruct (tail_spec idx k Hlen Hk) as [Hdiv [Hland [HB1 HB2]]].
    rewrite Hd in *. rewrite N.add_0_l.
    assert (H62 : 62 <? N.of_nat k = false) by lia. rewrite H62.
    rewrite Hdiv, Hland.
    set (B1 := firstn (11 * length idx - k) (bits_of_indices idx)) in *.
    set (B2 := skipn (11 * length idx - k) (bits_of_indices idx)) in *.
    set (E := bytes_of_bits B1).
    assert (HE : length E = (4 * k)%nat) by (apply bytes_of_bits_length; exact HB1).
    assert (HvE : val B1 = be_to_N E).
    { unfold E. rewrite be_to_N_val, (bits_bytes_of_bits B1 (4 * k)) by exact HB1. reflexivity. }
    rewrite HvE. replace (k * 4)%nat with (4 * k)%nat by lia.
    pose proof (be_to_N_bound E) as HbE. rewrite HE in HbE.
    pose proof (big_bytes_length _ _ HbE) as Hraw.
    assert (Hlt : (4 * k <? length (big_bytes (be_to_N E)))%nat = false) by lia. rewrite Hlt. cbn [andb].
    rewrite (padded_big_bytes (4 * k) E HE).
    destruct (shl1_ok (N.of_nat k)) as [Hs Hnz]; [lia|]. apply N.eqb_neq in Hnz. rewrite Hnz, Hs.
    rewrite cs_val by lia.
    unfold checksum_okb, checksum_of_indices, entropy_of_indices. rewrite Hd. fold B1 B2 E.
    destruct (bools_eqb B2 (firstn k (bits (sha256 E)))) eqn:C.
    + apply bools_eqb_eq in C. rewrite C, N.eqb_refl. reflexivity.
    + destruct (N.eqb_spec (val (firstn k (bits (sha256 E)))) (val B2)) as [Ev|Ev]; [|reflexivity].
      exfalso. apply val_inj in Ev.
      * rewrite Ev, (proj2 (bools_eqb_eq B2 B2) eq_refl) in C. discriminate.
      * rewrite firstn_length, bits_length, sha256_length. lia.
Qed.

Corollary IsMnemonicValid_iff s b : IsMnemonicValid lib get s = Ret b -> (b = true <-> CheckMnemonic lib get s = Ret None).
Proof.
  unfold IsMnemonicValid. rewrite CheckMnemonic_spec. cbn [omap].
  destruct (err_of_verdict _) as [e|]; intros H; injection H as <-; split; intros K; try discriminate; reflexivity.
Qed.
End Check.
