(* Non-vacuity: public BIP39 test vectors (Trezor) evaluated on the model and the
   specification.  These are tests of the definitions, not proofs of anything. *)
From B39 Require Import Lib.Base Lib.Sha256 Lib.Nfkd Model.GenTypes Model.Model Spec.Bip39Spec Gen.Lang.

Definition english : Z := 2.
Example vector_zero_16 :
  NewMnemonicByEntropy (repeat x00 16) english =
  Ret (bytes_of_string "abandon abandon abandon abandon abandon abandon abandon abandon abandon abandon abandon about", None).
Proof. vm_compute. reflexivity. Qed.
Example vector_7f_16 :
  bip39_encode sha256 "English" (repeat x7f 16) =
  bytes_of_string "legal winner thank year wave sausage worth useful legal winner thank yellow".
Proof. vm_compute. reflexivity. Qed.
Example vector_80_16 :
  bip39_encode sha256 "English" (repeat x80 16) =
  bytes_of_string "letter advice cage absurd amount doctor acoustic avoid letter advice cage above".
Proof. vm_compute. reflexivity. Qed.
Example vector_ff_16 :
  bip39_encode sha256 "English" (repeat xff 16) =
  bytes_of_string "zoo zoo zoo zoo zoo zoo zoo zoo zoo zoo zoo wrong".
Proof. vm_compute. reflexivity. Qed.
Example vector_zero_24 :
  bip39_encode sha256 "English" (repeat x00 24) =
  bytes_of_string "abandon abandon abandon abandon abandon abandon abandon abandon abandon abandon abandon abandon abandon abandon abandon abandon abandon agent".
Proof. vm_compute. reflexivity. Qed.
Example vector_ff_32 :
  bip39_encode sha256 "English" (repeat xff 32) =
  bytes_of_string "zoo zoo zoo zoo zoo zoo zoo zoo zoo zoo zoo zoo zoo zoo zoo zoo zoo zoo zoo zoo zoo zoo zoo vote".
Proof. vm_compute. reflexivity. Qed.
(* the canonical vector that the pinned commit rejected (defect F1) is accepted *)
Example zero_vector_validates :
  CheckMnemonic nfkd (map_get (mapping_pure english))
    (bytes_of_string "abandon abandon abandon abandon abandon abandon abandon abandon abandon abandon abandon about") = Ret None.
Proof. vm_compute. reflexivity. Qed.
Example zero_vector_decodes :
  bip39_decode "English" (bytes_of_string "abandon abandon abandon abandon abandon abandon abandon abandon abandon abandon abandon about")
  = Some (repeat x00 16).
Proof. vm_compute. reflexivity. Qed.
