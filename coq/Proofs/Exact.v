(* The accept set, exactly: a valid index list is the index list of exactly one entropy,
   so a string is accepted iff its NFKD form is the U+0020-joined BIP39 sentence of some
   entropy of 16/20/24/28/32 bytes. *)
From Coq Require Import ZifyBool ZifyNat ZifyN.
From B39 Require Import Lib.Base Lib.Bits Lib.Sha256 Lib.Utf8 Lib.Nfkd Lib.TableWF Model.GenTypes Model.Model.
From B39 Require Import Spec.Bip39Spec Proofs.Gates Proofs.Tables Proofs.BitsMore Proofs.Encode Proofs.Validate Proofs.Unicode Proofs.LibContract Proofs.Roundtrip Proofs.Sound Proofs.Api.
Local Open Scope N_scope.

Lemma vals_of_bits w idx : Forall (fun i => i < 2 ^ N.of_nat w) idx ->
  map val (chunks w (length idx) (flat_map (bits_of_N w) idx)) = idx.
Proof.
  induction 1 as [|i is Hi _ IH]; [reflexivity|].
  cbn [length chunks flat_map map].
  rewrite firstn_app, bits_of_N_length, Nat.sub_diag, firstn_all2 by (rewrite bits_of_N_length; lia).
  cbn [firstn]. rewrite app_nil_r.
  rewrite skipn_app, bits_of_N_length, Nat.sub_diag, skipn_all2 by (rewrite bits_of_N_length; lia).
  cbn [skipn app]. rewrite IH. f_equal. rewrite val_bits_of_N. apply N.mod_small. exact Hi.
Qed.

(* every valid index list is the index list of the entropy it encodes *)
Theorem valid_indices_are_encodings idx :
  valid_wc (length idx) -> Forall (fun i => i < 2048) idx -> checksum_okb sha256 idx = true ->
  let ent := entropy_of_indices idx in
  valid_ent (length ent) /\ bip39_indices sha256 ent = idx.
Proof.
  intros Hwc Hb Hcs ent. destruct (valid_wc_k _ Hwc) as [k [Hn Hk]].
  assert (Hd : (length idx / 3 = k)%nat) by (rewrite Hn, Nat.mul_comm; apply Nat.div_mul; lia).
  pose proof (bits_of_indices_length idx) as HB.
  set (B := bits_of_indices idx) in *.
  set (B1 := firstn (11 * length idx - length idx / 3) B).
  assert (HB1 : length B1 = (8 * (4 * k))%nat) by (unfold B1; rewrite firstn_length; lia).
  assert (Hent : ent = bytes_of_bits B1) by reflexivity.
  assert (Hlen : length ent = (4 * k)%nat) by (rewrite Hent; apply bytes_of_bits_length; exact HB1).
  split.
  - rewrite Hlen. unfold valid_ent. cbn [In]. lia.
  - unfold bip39_indices, checksum_bits. rewrite Hlen.
    assert (Hq : (4 * k / 4 = k)%nat) by (rewrite Nat.mul_comm; apply Nat.div_mul; lia). rewrite Hq.
    rewrite Hent, (bits_bytes_of_bits B1 (4 * k) HB1). rewrite <- Hent.
    unfold checksum_okb, checksum_of_indices in Hcs. apply bools_eqb_eq in Hcs. fold B in Hcs. fold ent in Hcs.
    rewrite Hd in Hcs. rewrite <- Hcs. unfold B1. rewrite Hd, firstn_skipn.
    replace (k * 3)%nat with (length idx) by lia.
    apply (vals_of_bits 11). exact Hb.
Qed.

Section Lib.
Variable lib : list byte -> list byte.
Hypothesis Hlib : lib_contract lib.

(* the U+0020-joined sentence of an entropy over the canonical list of a language *)
Definition plain_sentence (name : string) (ent : list byte) : list byte := encode_with sha256 [x20] (canon name) ent.

Theorem accepted_iff_encoding name l s : supported name l ->
  (CheckMnemonicL lib s l = Ret None <->
   utf8_valid s = true /\ exists ent, valid_ent (length ent) /\ nfkd s = plain_sentence name ent).
Proof.
  intros Hs. pose proof (canon_ok name l Hs) as Hok. split.
  - intros H. rewrite (CheckMnemonicL_canon lib s name l Hs) in H.
    split; [exact (accepted_valid (canon name) Hok lib Hlib s H)|].
    destruct (accepted_tokens (canon name) Hok lib s H) as [idx [Ht [Hwc [Hb Hcs]]]].
    destruct (valid_indices_are_encodings idx Hwc Hb Hcs) as [Hv Hi]. cbn zeta in Hv, Hi.
    exists (entropy_of_indices idx). split; [exact Hv|].
    unfold plain_sentence, encode_with. rewrite Hi, <- Ht.
    rewrite <- (LC1 _ Hlib s (accepted_valid (canon name) Hok lib Hlib s H) (accepted_xsafe (canon name) Hok lib Hlib s H)). symmetry. apply join_split.
  - intros [V [ent [Hv E]]]. destruct (valid_ent_k _ Hv) as [k [Hlen Hk]]. destruct (indices_bits ent k Hlen Hk) as [_ [Hb _]].
    apply (valid_spelling_accepted lib Hlib name l (bip39_indices sha256 ent) s Hs V); [apply valid_ent_wc; exact Hv|exact Hb|apply (indices_entropy ent Hv)|exact E].
Qed.
End Lib.
