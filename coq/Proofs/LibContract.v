(* golang.org/x/text's norm.NFKD.String is modelled as ANY function meeting this
   contract (measured of x/text and re-validated on every run by the K stream).
   On VALID UTF-8 it is UAX #15 NFKD on strings whose normal form has no run of
   more than 30 modifiers (xsafe); elsewhere on valid UTF-8 its output contains
   U+034F; it keeps the number of 0x20 bytes.  On INVALID UTF-8 nothing is claimed
   about what it computes (x/text does not decompose every character that follows a
   stray lead byte such as 0xF5: found by the K stream) except that the output is
   not valid UTF-8 either.  Theorems quantify over every such function; nothing is an axiom. *)
From B39 Require Import Lib.Base Lib.Utf8 Lib.Nfkd.

Definition count_sp (s : list byte) : nat := length (filter (fun b => Byte.eqb b x20) s).

Record lib_contract (lib : list byte -> list byte) : Prop := {
  LC1 : forall s, utf8_valid s = true -> xsafe s = true -> lib s = nfkd s;
  LC2 : forall s, utf8_valid s = true -> xsafe s = false -> has_cgj (lib s) = true;
  LC3 : forall s, utf8_valid s = true -> count_sp (lib s) = count_sp (nfkd s);
  LC4 : forall s, utf8_valid s = false -> utf8_valid (lib s) = false
}.

(* the contract is satisfiable: a function that behaves like the measured library *)
Definition lib_example (s : list byte) : list byte :=
  if utf8_valid s then (if xsafe s then nfkd s else [xcd; x8f] ++ nfkd s) else s.
Example lib_example_contract : lib_contract lib_example.
Proof.
  split; intros s; unfold lib_example.
  - intros V H. rewrite V, H. reflexivity.
  - intros V H. rewrite V, H. reflexivity.
  - intros V. rewrite V. destruct (xsafe s); reflexivity.
  - intros V. rewrite V. exact V.
Qed.
