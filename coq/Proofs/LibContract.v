(* golang.org/x/text's norm.NFKD.String is modelled as ANY function meeting this
   contract (measured of x/text and re-validated on every run by the K stream):
   it is UAX #15 NFKD on strings whose normal form has no run of more than 30
   modifiers (xsafe); elsewhere its output contains U+034F and keeps the number
   of 0x20 bytes.  Theorems quantify over every such function; nothing is an axiom. *)
From B39 Require Import Lib.Base Lib.Utf8 Lib.Nfkd.

Definition count_sp (s : list byte) : nat := length (filter (fun b => Byte.eqb b x20) s).

Record lib_contract (lib : list byte -> list byte) : Prop := {
  LC1 : forall s, xsafe s = true -> lib s = nfkd s;
  LC2 : forall s, xsafe s = false -> has_cgj (lib s) = true;
  LC3 : forall s, count_sp (lib s) = count_sp (nfkd s)
}.

(* the contract is satisfiable: a function that behaves like the measured library *)
Definition lib_example (s : list byte) : list byte := if xsafe s then nfkd s else [xcd; x8f] ++ nfkd s.
Example lib_example_contract : lib_contract lib_example.
Proof.
  split; intros s; unfold lib_example.
  - intros H. rewrite H. reflexivity.
  - intros H. rewrite H. reflexivity.
  - destruct (xsafe s); reflexivity.
Qed.

