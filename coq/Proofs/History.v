(* C13: the once/maps state machine interpreted from the GENERATED mapping() table
   never changes what a call returns: for every finite history of API calls the
   results are those of the history-free functions. *)
From Coq Require Import ZifyBool ZifyNat ZifyN.
From B39 Require Import Lib.Base Lib.Nfkd Model.GenTypes Model.Model Model.State.
From B39 Require Import Gen.Lang Gen.Gates Proofs.Sound.
Local Open Scope N_scope.

(* ---------- what the generated table must say (computed on the current source) ---------- *)
Definition case_wf (c : mapping_case) : bool :=
  String.eqb (mc_made c) (mc_indexed c) && String.eqb (mc_indexed c) (mc_ret c) && mc_key_is_word c && mc_val_is_idx c.

Fixpoint str_nodup (l : list string) : bool :=
  match l with [] => true | x :: r => negb (str_mem x r) && str_nodup r end.

Definition mapping_table_wf : bool :=
  mapping_shape_ok && forallb case_wf mapping_cases &&
  str_nodup (map mc_once mapping_cases) && str_nodup (map mc_ret mapping_cases).

Lemma mapping_table_wf_holds : mapping_table_wf = true.
Proof. vm_compute. reflexivity. Qed.

Lemma str_mem_In x l : str_mem x l = true <-> In x l.
Proof.
  unfold str_mem. rewrite existsb_exists. split.
  - intros [y [Hy E]]. apply String.eqb_eq in E. subst. exact Hy.
  - intros H. exists x. split; [exact H|apply String.eqb_refl].
Qed.

Lemma str_nodup_NoDup l : str_nodup l = true -> NoDup l.
Proof.
  induction l as [|x r IH]; intros H; [constructor|]. cbn [str_nodup] in H. apply andb_prop in H as [H1 H2].
  constructor; [|exact (IH H2)]. intros Hin. apply str_mem_In in Hin. rewrite Hin in H1. discriminate.
Qed.

Lemma NoDup_map_inj {A B} (f : A -> B) l x y : NoDup (map f l) -> In x l -> In y l -> f x = f y -> x = y.
Proof.
  induction l as [|a l IH]; intros Hnd Hx Hy E; [contradiction|].
  cbn [map] in Hnd. inversion Hnd as [|? ? Hn Hnd']; subst.
  destruct Hx as [->|Hx], Hy as [->|Hy]; try reflexivity.
  - exfalso. apply Hn. rewrite E. apply in_map. exact Hy.
  - exfalso. apply Hn. rewrite <- E. apply in_map. exact Hx.
  - apply IH; assumption.
Qed.

(* ---------- variables ---------- *)
Lemma var_get_set_same ms v m : var_get (var_set ms v m) v = Some m.
Proof. unfold var_set. cbn [var_get]. rewrite String.eqb_refl. reflexivity. Qed.
Lemma var_get_set_other ms v v' m : v <> v' -> var_get (var_set ms v m) v' = var_get ms v'.
Proof. intros H. unfold var_set. cbn [var_get]. apply String.eqb_neq in H. rewrite H. reflexivity. Qed.

(* ---------- the closure body ---------- *)
Fixpoint built (t : table) (i : N) (m0 : gomap) : gomap :=
  match t with [] => m0 | w :: r => built r (i + 1) ((w, i) :: m0) end.

Lemma fill_spec c : mc_key_is_word c = true -> mc_val_is_idx c = true ->
  forall t ms i m0, var_get ms (mc_indexed c) = Some m0 ->
  exists ms', fill c ms t i = Ret ms' /\ var_get ms' (mc_indexed c) = Some (built t i m0) /\
              forall v, v <> mc_indexed c -> var_get ms' v = var_get ms v.
Proof.
  intros Hk Hv. induction t as [|w r IH]; intros ms i m0 Hm; cbn [fill built].
  - exists ms. split; [reflexivity|]. split; [exact Hm|]. intros v _. reflexivity.
  - rewrite Hm, Hk, Hv.
    destruct (IH (var_set ms (mc_indexed c) ((w, i) :: m0)) (i + 1) ((w, i) :: m0) (var_get_set_same _ _ _)) as [ms' [H1 [H2 H3]]].
    exists ms'. split; [exact H1|]. split; [exact H2|].
    intros v Hne. rewrite (H3 v Hne). apply var_get_set_other. congruence.
Qed.

Lemma gomap_get_built w t : forall i m0,
  gomap_get (built t i m0) w = match last_index_from w t i None with Some j => Some j | None => gomap_get m0 w end.
Proof.
  induction t as [|x r IH]; intros i m0; cbn [built last_index_from]; [reflexivity|].
  rewrite IH. cbn [gomap_get].
  assert (G : forall acc, last_index_from w r (i + 1) acc = match last_index_from w r (i + 1) None with Some j => Some j | None => acc end).
  { clear. generalize (i + 1). induction r as [|y r IHr]; intros k acc; cbn [last_index_from]; [reflexivity|].
    destruct (bytes_eqb y w); [rewrite (IHr (k + 1) (Some k)); destruct (last_index_from w r (k + 1) None); reflexivity|apply IHr]. }
  rewrite (G (if bytes_eqb x w then Some i else None)).
  destruct (last_index_from w r (i + 1) None); [reflexivity|]. destruct (bytes_eqb x w); reflexivity.
Qed.

(* ---------- the invariant ---------- *)
Definition Inv (s : pstate) : Prop :=
  forall c, In c mapping_cases -> str_mem (mc_once c) (st_done s) = true ->
  exists g, var_get (st_maps s) (mc_ret c) = Some g /\ forall w, gomap_get g w = map_get (Some (mc_table c)) w.

Lemma Inv_init : Inv init_state.
Proof. intros c _ H. cbn in H. discriminate. Qed.

Lemma wf_case c : In c mapping_cases -> case_wf c = true.
Proof.
  intros Hin. pose proof mapping_table_wf_holds as W. unfold mapping_table_wf in W.
  apply andb_prop in W as [W _]. apply andb_prop in W as [W _]. apply andb_prop in W as [_ W].
  rewrite forallb_forall in W. exact (W c Hin).
Qed.
Lemma wf_once_inj c c' : In c mapping_cases -> In c' mapping_cases -> mc_once c = mc_once c' -> c = c'.
Proof.
  pose proof mapping_table_wf_holds as W. unfold mapping_table_wf in W.
  apply andb_prop in W as [W _]. apply andb_prop in W as [_ W]. apply str_nodup_NoDup in W. apply NoDup_map_inj. exact W.
Qed.
Lemma wf_ret_inj c c' : In c mapping_cases -> In c' mapping_cases -> mc_ret c = mc_ret c' -> c = c'.
Proof.
  pose proof mapping_table_wf_holds as W. unfold mapping_table_wf in W.
  apply andb_prop in W as [_ W]. apply str_nodup_NoDup in W. apply NoDup_map_inj. exact W.
Qed.

(* Language.mapping() in any state satisfying the invariant: no panic, the invariant is kept, and the
   returned map is (pointwise) the history-free one *)
Lemma mapping_st_spec s l : Inv s ->
  exists s' mp, mapping_st s l = Ret (s', mp) /\ Inv s' /\ forall w, gomap_lookup mp w = map_get (mapping_pure l) w.
Proof.
  intros HI. unfold mapping_st, mapping_pure.
  destruct (find (fun c => Z.eqb (mc_value c) l) mapping_cases) as [c|] eqn:F.
  - apply find_some in F as [Hin _].
    pose proof (wf_case c Hin) as Wc. unfold case_wf in Wc.
    apply andb_prop in Wc as [Wc Hv]. apply andb_prop in Wc as [Wc Hk]. apply andb_prop in Wc as [E1 E2].
    apply String.eqb_eq in E1. apply String.eqb_eq in E2.
    destruct (str_mem (mc_once c) (st_done s)) eqn:D.
    + destruct (HI c Hin D) as [g [Hg Hw]]. exists s, (Some g). split; [rewrite Hg; reflexivity|]. split; [exact HI|exact Hw].
    + destruct (fill_spec c Hk Hv (mc_table c) (var_set (st_maps s) (mc_made c) []) 0 [])
        as [ms [Hf [Hb Ho]]]; [rewrite E1; apply var_get_set_same|].
      rewrite Hf. rewrite <- E2, Hb.
      exists {| st_done := mc_once c :: st_done s; st_maps := ms |}, (Some (built (mc_table c) 0 [])).
      split; [reflexivity|]. split.
      * intros c' Hin' D'. cbn [st_done st_maps] in *.
        destruct (String.eqb (mc_once c') (mc_once c)) eqn:Eo.
        -- apply String.eqb_eq in Eo. pose proof (wf_once_inj c' c Hin' Hin Eo). subst c'.
           exists (built (mc_table c) 0 []). split; [rewrite <- E2; exact Hb|].
           intros w. rewrite gomap_get_built. unfold map_get. destruct (last_index_from w (mc_table c) 0 None); reflexivity.
        -- assert (D0 : str_mem (mc_once c') (st_done s) = true).
           { unfold str_mem in D' |- *. cbn [existsb] in D'. rewrite Eo in D'. exact D'. }
           destruct (HI c' Hin' D0) as [g [Hg Hw]]. exists g. split; [|exact Hw].
           assert (Hne : mc_ret c' <> mc_indexed c).
           { rewrite E2. intros E. pose proof (wf_ret_inj c' c Hin' Hin E). subst c'. rewrite String.eqb_refl in Eo. discriminate. }
           rewrite (Ho _ Hne). rewrite var_get_set_other by (rewrite E1; congruence). exact Hg.
      * intros w. cbn [gomap_lookup]. rewrite gomap_get_built. unfold map_get. destruct (last_index_from w (mc_table c) 0 None); reflexivity.
  - exists s, None. split; [reflexivity|]. split; [exact HI|reflexivity].
Qed.

Section Api.
Variable lib : list byte -> list byte.

Lemma check_gate_early get m : gate_count (Z.of_nat (length (split_at (fun b => Byte.eqb b x20) (lib m)))) = true ->
  CheckMnemonic lib get m = Ret (Some gate_count_err).
Proof. intros H. unfold CheckMnemonic, CheckMnemonic_gen. rewrite H. reflexivity. Qed.

Lemma api_step_pure s o : Inv s -> Inv (fst (api_step lib s o)) /\ snd (api_step lib s o) = pure lib o.
Proof.
  intros HI. destruct o as [ent l|n l sc|m l|m l|m p|l]; cbn [api_step pure].
  - split; [exact HI|reflexivity].
  - destruct (NewMnemonic n l sc) as [r rest]. split; [exact HI|reflexivity].
  - destruct (gate_count _) eqn:G.
    + split; [exact HI|]. cbn [snd]. rewrite (check_gate_early _ m G). reflexivity.
    + destruct (mapping_st_spec s l HI) as [s' [mp [E [HI' Hw]]]]. rewrite E. split; [exact HI'|].
      cbn [snd]. f_equal. apply CheckMnemonic_ext. exact Hw.
  - destruct (gate_count _) eqn:G.
    + split; [exact HI|]. cbn [snd]. unfold IsMnemonicValid. rewrite (check_gate_early _ m G). rewrite Proofs.Gates.gate_count_err_is. reflexivity.
    + destruct (mapping_st_spec s l HI) as [s' [mp [E [HI' Hw]]]]. rewrite E. split; [exact HI'|].
      cbn [snd]. f_equal. unfold IsMnemonicValid. f_equal. apply CheckMnemonic_ext. exact Hw.
  - split; [exact HI|reflexivity].
  - split; [exact HI|reflexivity].
Qed.

(* every finite history from every state satisfying the invariant - in particular from a fresh process *)
Theorem run_pure ops : forall s, Inv s -> run lib s ops = map (pure lib) ops.
Proof.
  induction ops as [|o r IH]; intros s HI; cbn [run map]; [reflexivity|].
  destruct (api_step_pure s o HI) as [HI' Hr]. destruct (api_step lib s o) as [s' res]. cbn [fst snd] in *.
  rewrite Hr, (IH s' HI'). reflexivity.
Qed.

Theorem history_free ops : run lib init_state ops = map (pure lib) ops.
Proof. apply run_pure. apply Inv_init. Qed.
End Api.
