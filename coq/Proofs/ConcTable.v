(* The concurrency theorems (Proofs/Concurrency.v) instantiated with the mapping() table
   GENERATED from lang.go, and with threads that are lists of API calls. *)
From B39 Require Import Lib.Base Model.GenTypes Model.Model Model.State Gen.Lang Gen.Gates.
From B39 Require Import Proofs.Concurrency.

Definition to_mcase (c : mapping_case) : mcase := {| co := mc_once c; cw := mc_made c; cr := mc_ret c |}.
Definition conc_table : list mcase := map to_mcase mapping_cases.

Definition mcase_eqb (a b : mcase) : bool :=
  String.eqb (co a) (co b) && String.eqb (cw a) (cw b) && String.eqb (cr a) (cr b).
Lemma mcase_eqb_eq a b : mcase_eqb a b = true -> a = b.
Proof.
  destruct a, b. unfold mcase_eqb. cbn. intros H. apply andb_prop in H as [H H3]. apply andb_prop in H as [H1 H2].
  apply String.eqb_eq in H1, H2, H3. subst. reflexivity.
Qed.

(* computed on the current source: a variable determines its once, a once guards one case, the variable
   returned after Do is the one the closure builds (and the closure writes no other package-level variable:
   made = indexed, Proofs/History.v case_wf) *)
Definition conc_table_wf : bool :=
  forallb (fun c1 => forallb (fun c2 =>
      implb (String.eqb (cw c1) (cw c2)) (String.eqb (co c1) (co c2)) &&
      implb (String.eqb (cw c1) (cr c2)) (String.eqb (co c1) (co c2)) &&
      implb (String.eqb (co c1) (co c2)) (mcase_eqb c1 c2)) conc_table) conc_table
  && forallb (fun c => String.eqb (cr c) (cw c)) conc_table
  && forallb (fun c => String.eqb (mc_made c) (mc_indexed c)) mapping_cases.

Lemma conc_table_wf_holds : conc_table_wf = true.
Proof. vm_compute. reflexivity. Qed.

Lemma wf_pair c1 c2 : In c1 conc_table -> In c2 conc_table ->
  (cw c1 = cw c2 -> co c1 = co c2) /\ (cw c1 = cr c2 -> co c1 = co c2) /\ (co c1 = co c2 -> c1 = c2).
Proof.
  intros H1 H2. pose proof conc_table_wf_holds as W. unfold conc_table_wf in W.
  apply andb_prop in W as [W _]. apply andb_prop in W as [W _].
  rewrite forallb_forall in W. specialize (W c1 H1). rewrite forallb_forall in W. specialize (W c2 H2).
  apply andb_prop in W as [W W3]. apply andb_prop in W as [W1 W2].
  repeat split; intros E.
  - rewrite E, String.eqb_refl in W1. apply String.eqb_eq. exact W1.
  - rewrite E, String.eqb_refl in W2. apply String.eqb_eq. exact W2.
  - rewrite E, String.eqb_refl in W3. apply mcase_eqb_eq. exact W3.
Qed.

Lemma wf_rw_table c : In c conc_table -> cr c = cw c.
Proof.
  intros H. pose proof conc_table_wf_holds as W. unfold conc_table_wf in W.
  apply andb_prop in W as [W _]. apply andb_prop in W as [_ W]. rewrite forallb_forall in W. apply String.eqb_eq. exact (W c H).
Qed.

(* ---------- threads as lists of API calls ---------- *)
Section Api.
Variable lib : list byte -> list byte.

(* the map lookups one exported call performs: CheckMnemonic / IsMnemonicValid call mapping() once, after the
   count gate; no other exported function reads or writes a variable that is ever written *)
Definition lookups (o : op) : list mcase :=
  match o with
  | OpCheck m l | OpValid m l =>
    if gate_count (Z.of_nat (length (split_at (fun b => Byte.eqb b x20) (lib m)))) then []
    else match find (fun c => Z.eqb (mc_value c) l) mapping_cases with Some c => [to_mcase c] | None => [] end
  | _ => []
  end.

Definition prog_of (calls : nat -> list op) (t : nat) : list mcase := flat_map lookups (calls t).

Lemma prog_in_table calls t : incl (prog_of calls t) conc_table.
Proof.
  unfold prog_of. intros x Hx. apply in_flat_map in Hx as [o [_ Ho]].
  destruct o as [ent l|n l sc|m l|m l|m p|l]; cbn [lookups] in Ho; try contradiction;
    (destruct (gate_count _); [contradiction|]);
    (destruct (find _ mapping_cases) as [c|] eqn:F; [|contradiction]);
    (destruct Ho as [<-|[]]; apply find_some in F as [Hin _]; apply in_map; exact Hin).
Qed.

(* any number of threads, any call lists, any interleaving, from a cold start *)
Theorem api_race_free calls tr s : reach (init (prog_of calls)) tr s ->
  forall i j t1 t2 e1 e2, i < j -> at_ tr i (t1, e1) -> at_ tr j (t2, e2) -> t1 <> t2 -> conflict e1 e2 ->
  exists o f p, i < f /\ f < p /\ p < j /\ at_ tr f (t1, EFin o) /\ at_ tr p (t2, EPass o).
Proof.
  apply (race_free conc_table).
  - intros c1 c2 H1 H2. exact (proj1 (wf_pair c1 c2 H1 H2)).
  - intros c1 c2 H1 H2. exact (proj1 (proj2 (wf_pair c1 c2 H1 H2))).
  - apply prog_in_table.
Qed.

Theorem api_reads_own_map calls tr s t c r : reach (init (prog_of calls)) tr s ->
  th s t = {| ph := Reading; todo := c :: r |} -> vars s (cr c) = Some c.
Proof.
  apply (reads_own_map conc_table).
  - intros c1 c2 H1 H2. exact (proj1 (wf_pair c1 c2 H1 H2)).
  - intros c1 c2 H1 H2. exact (proj2 (proj2 (wf_pair c1 c2 H1 H2))).
  - apply wf_rw_table.
  - apply prog_in_table.
Qed.
End Api.

(* non-vacuity: two threads validating Korean and Japanese sentences from a cold start; a reachable
   interleaving in which thread 1 runs the Korean closure while thread 0 waits and then passes *)
Definition korean : Z := 6.
Example two_threads_reach :
  exists c, find (fun c => Z.eqb (mc_value c) korean) mapping_cases = Some c /\
  let k := to_mcase c in
  let prog := fun t : nat => if Nat.ltb t 2 then [k] else [] in
  exists s, reach (init prog) [(1, EBegin (co k)); (1, EWr k); (1, EFin (co k)); (0, EPass (co k)); (0, ERd k); (1, ERd k)] s.
Proof.
  destruct (find (fun c => Z.eqb (mc_value c) korean) mapping_cases) as [c|] eqn:F; [|vm_compute in F; discriminate].
  exists c. split; [reflexivity|]. cbn zeta. set (k := to_mcase c). set (prog := fun t : nat => if Nat.ltb t 2 then [k] else []).
  eexists.
  change [(1, EBegin (co k)); (1, EWr k); (1, EFin (co k)); (0, EPass (co k)); (0, ERd k); (1, ERd k)]
    with ((((((([] ++ [(1, EBegin (co k))]) ++ [(1, EWr k)]) ++ [(1, EFin (co k))]) ++ [(0, EPass (co k))]) ++ [(0, ERd k)]) ++ [(1, ERd k)])).
  repeat eapply r_snoc; [apply r_nil|..].
  - eapply s_begin; reflexivity.
  - eapply s_wr. cbn [th]. rewrite upd_same. reflexivity.
  - eapply s_fin. cbn [th]. rewrite upd_same. reflexivity.
  - eapply s_pass; cbn [th os]; [rewrite !upd_other by discriminate; reflexivity|rewrite upd_same; reflexivity].
  - eapply s_rd. cbn [th]. rewrite upd_same. reflexivity.
  - eapply s_rd. cbn [th]. rewrite upd_other by discriminate. rewrite upd_other by discriminate. rewrite upd_same. reflexivity.
Qed.
