(* C08: what is observable of the ten lists. *)
From Coq Require Import ZifyBool ZifyNat ZifyN.
From B39 Require Import Lib.Base Lib.Utf8 Lib.Nfkd Lib.Sha256 Lib.TableWF Model.GenTypes Model.Model Gen.Lang.
From B39 Require Import Spec.Bip39Spec Spec.CanonDigests Facts.CanonDigest Proofs.Tables Proofs.Roundtrip Proofs.Sound.
Local Open Scope N_scope.

Definition word_wellformed (w : list byte) : Prop :=
  w <> [] /\ utf8_valid w = true /\ nfkd w = w /\
  forallb (fun c => negb (is_space_cp c)) (utf8_decode w) = true /\ forallb (fun b => negb (Byte.eqb b x20)) w = true.

Lemma word_ok_wellformed w : word_ok w = true -> word_wellformed w.
Proof.
  intros H. repeat split; [exact (wok_nonempty w H)|exact (wok_valid w H)|exact (wok_nfkd w H)|exact (wok_nospacecp w H)|exact (wok_nospace w H)].
Qed.

Theorem lists_canonical name l : supported name l ->
  list_of l = canon name /\ length (list_of l) = 2048%nat /\ NoDup (list_of l) /\ Forall word_wellformed (list_of l).
Proof.
  intros Hs. split; [exact (list_of_canon name l Hs)|]. pose proof (list_of_ok l) as Hok.
  split; [exact (tok_length _ Hok)|]. split; [exact (tok_nodup _ Hok)|].
  apply Forall_forall. intros w Hw. apply word_ok_wellformed. exact (tok_words _ Hok w Hw).
Qed.

(* validation maps word i back to index i *)
Theorem mapping_inverse name l i : supported name l -> i < 2048 ->
  map_get (mapping_pure l) (word_at (list_of l) i) = Some i.
Proof.
  intros Hs Hi. rewrite (mapping_supported name l Hs). pose proof (list_of_ok l) as Hok.
  rewrite (map_get_tbl_get _ _ (tok_nodup _ Hok)). apply (tbl_get_word_at _ Hok). exact Hi.
Qed.

Theorem mapping_only_words name l w i : supported name l ->
  map_get (mapping_pure l) w = Some i -> w = word_at (list_of l) i /\ i < 2048.
Proof.
  intros Hs H. rewrite (mapping_supported name l Hs) in H. pose proof (list_of_ok l) as Hok.
  assert (H' : tbl_get (list_of l) w = Some i) by (rewrite <- (map_get_tbl_get _ w (tok_nodup _ Hok)); exact H).
  split; [exact (proj1 (tbl_get_word _ _ _ H'))|exact (tbl_get_bound _ Hok _ _ H')].
Qed.

(* the pinned canonical tables are the upstream files, by digest *)
Theorem canon_is_upstream name d : In (name, d) canon_digests ->
  hex_of (sha256 (file_of (canon name))) = d.
Proof.
  intros Hin. pose proof canon_digests_match as K. rewrite forallb_forall in K. specialize (K _ Hin).
  cbn [fst snd] in K. apply N.eqb_eq in K. exact K.
Qed.

(* every declared language has a canonical table and vice versa *)
Lemma languages_are_the_ten :
  forallb (fun c => existsb (fun t => String.eqb (fst t) (fst c)) canon_tables) lang_consts = true /\
  forallb (fun t => existsb (fun c => String.eqb (fst t) (fst c)) lang_consts) canon_tables = true.
Proof. split; vm_compute; reflexivity. Qed.
