(* NFKD is idempotent on valid UTF-8: the NFKD form of a string is itself in NFKD.  Hence a string and its
   NFKD form are validated alike (C10) and give the same seed (C11). *)
From Coq Require Import ZifyBool ZifyNat ZifyN FMapPositive.
From B39 Require Import Lib.Base Lib.Utf8 Lib.NfkdTable Lib.Nfkd.
Ltac Zify.zify_post_hook ::= Z.to_euclidean_division_equations.
Local Open Scope N_scope.

(* Unicode scalar values *)
Definition scalar (c : N) : bool := (c <? 0xD800) || ((0xE000 <=? c) && (c <? 0x110000)).

Ltac cond_true c := let H := fresh in assert (H : c = true) by lia; rewrite H; clear H.
Ltac cond_false c := let H := fresh in assert (H : c = false) by lia; rewrite H; clear H.

Lemma decode_encode1 c : scalar c = true -> decode (encode1 c) = [Cp c].
Proof.
  unfold scalar. intros Hs. unfold encode1, bad_base.
  destruct (c <? 0x80) eqn:E1.
  - unfold decode. cbn [length decode_f]. unfold decode1. rewrite E1. reflexivity.
  - destruct (c <? 0x800) eqn:E2.
    + unfold decode. cbn [length decode_f]. unfold decode1, cont.
      set (b0 := 0xC0 + c / 64). set (b1 := 0x80 + c mod 64).
      cond_false (b0 <? 0x80). cond_false (b0 <? 0xC2). cond_true (b0 <? 0xE0).
      cond_true ((0x80 <=? b1) && (b1 <=? 0xBF)). cbn [skipn Nat.sub]. f_equal. f_equal. unfold b0, b1. lia.
    + destruct (c <? 0x10000) eqn:E3.
      * unfold decode. cbn [length decode_f]. unfold decode1, cont.
        set (b0 := 0xE0 + c / 4096). set (b1 := 0x80 + (c / 64) mod 64). set (b2 := 0x80 + c mod 64).
        cond_false (b0 <? 0x80). cond_false (b0 <? 0xC2). cond_false (b0 <? 0xE0). cond_true (b0 <? 0xF0).
        assert (Hlo : ((if b0 =? 0xE0 then 0xA0 else 0x80) <=? b1) = true) by (unfold b0, b1; destruct (N.eqb_spec (0xE0 + c / 4096) 0xE0); lia).
        assert (Hhi : (b1 <=? (if b0 =? 0xED then 0x9F else 0xBF)) = true) by (unfold b0, b1; destruct (N.eqb_spec (0xE0 + c / 4096) 0xED); lia).
        rewrite Hlo, Hhi. cond_true ((0x80 <=? b2) && (b2 <=? 0xBF)). cbn [andb skipn Nat.sub]. f_equal. f_equal. unfold b0, b1, b2. lia.
      * assert (E4 : c <? 0x110000 = true) by lia. rewrite E4.
        unfold decode. cbn [length decode_f]. unfold decode1, cont.
        set (b0 := 0xF0 + c / 262144). set (b1 := 0x80 + (c / 4096) mod 64). set (b2 := 0x80 + (c / 64) mod 64). set (b3 := 0x80 + c mod 64).
        cond_false (b0 <? 0x80). cond_false (b0 <? 0xC2). cond_false (b0 <? 0xE0). cond_false (b0 <? 0xF0). cond_true (b0 <? 0xF5).
        assert (Hlo : ((if b0 =? 0xF0 then 0x90 else 0x80) <=? b1) = true) by (unfold b0, b1; destruct (N.eqb_spec (0xF0 + c / 262144) 0xF0); lia).
        assert (Hhi : (b1 <=? (if b0 =? 0xF4 then 0x8F else 0xBF)) = true) by (unfold b0, b1; destruct (N.eqb_spec (0xF0 + c / 262144) 0xF4); lia).
        rewrite Hlo, Hhi. cond_true ((0x80 <=? b2) && (b2 <=? 0xBF)). cond_true ((0x80 <=? b3) && (b3 <=? 0xBF)).
        cbn [andb skipn Nat.sub]. f_equal. f_equal. unfold b0, b1, b2, b3. lia.
Qed.

Lemma encode1_bytes c : scalar c = true -> Forall (fun b => b < 256) (encode1 c).
Proof.
  unfold scalar, encode1, bad_base. intros Hs.
  destruct (c <? 0x80) eqn:E1; [repeat constructor; lia|].
  destruct (c <? 0x800) eqn:E2; [repeat constructor; lia|].
  destruct (c <? 0x10000) eqn:E3; [repeat constructor; lia|].
  assert (E4 : c <? 0x110000 = true) by lia. rewrite E4. repeat constructor; lia.
Qed.

Lemma to_N_byte_of_N_small l : Forall (fun b => b < 256) l -> map Byte.to_N (map byte_of_N l) = l.
Proof.
  induction 1 as [|b l Hb _ IH]; [reflexivity|]. cbn [map]. rewrite IH, to_N_byte_of_N, N.mod_small by exact Hb. reflexivity.
Qed.

Definition scalars (l : list N) : Prop := Forall (fun c => scalar c = true) l.

Lemma decode_encode_list l : scalars l -> decode (flat_map encode1 l) = map Cp l.
Proof.
  induction 1 as [|c l Hc _ IH]; [reflexivity|]. cbn [flat_map map].
  rewrite decode_app by (rewrite (decode_encode1 c Hc); reflexivity).
  rewrite (decode_encode1 c Hc), IH. reflexivity.
Qed.

Theorem utf8_decode_encode l : scalars l -> utf8_decode (utf8_encode l) = l /\ utf8_valid (utf8_encode l) = true.
Proof.
  intros H. unfold utf8_decode, utf8_valid, utf8_items, utf8_encode.
  rewrite to_N_byte_of_N_small.
  - rewrite (decode_encode_list l H). split.
    + rewrite map_map. cbn [item_to_N]. apply map_id.
    + rewrite forallb_forall. intros x Hx. apply in_map_iff in Hx as [c [<- _]]. reflexivity.
  - clear -H. induction H as [|c l Hc _ IH]; [constructor|]. cbn [flat_map]. apply Forall_app. split; [apply encode1_bytes; exact Hc|exact IH].
Qed.

(* decoding valid UTF-8 yields scalar values *)
Lemma decode1_scalar b0 r c k : decode1 b0 r = (Cp c, k) -> Forall (fun b => b < 256) (b0 :: r) -> scalar c = true.
Proof.
  unfold decode1, cont, scalar. intros H F.
  inversion F as [|? ? Hb0 Fr]; subst.
  repeat match type of H with
  | context [if ?c then _ else _] => let E := fresh "E" in destruct c eqn:E
  | context [match ?l with [] => _ | _ :: _ => _ end] => destruct l
  end; try discriminate; injection H as <- <-;
  repeat match goal with K : Forall _ (_ :: _) |- _ => inversion K; subst; clear K end; lia.
Qed.

Lemma decode_f_scalars fuel : forall bs, Forall (fun b => b < 256) bs ->
  forallb is_cp (decode_f fuel bs) = true -> scalars (map item_to_N (decode_f fuel bs)).
Proof.
  induction fuel as [|f IH]; intros bs Hb Hv; [constructor|].
  destruct bs as [|b0 r]; [constructor|]. cbn [decode_f] in *.
  destruct (decode1 b0 r) as [it k] eqn:E. cbn [forallb map] in *. apply andb_prop in Hv as [Hit Hrest].
  destruct it as [c|b]; [|discriminate]. constructor.
  - cbn [item_to_N]. exact (decode1_scalar b0 r c k E Hb).
  - apply IH; [|exact Hrest]. inversion Hb; subst. clear -H2. revert r H2. induction (k - 1)%nat as [|n IHn]; intros r Hr; [exact Hr|].
    destruct r; [constructor|]. cbn [skipn]. apply IHn. inversion Hr; assumption.
Qed.

Lemma bytes_small (s : list byte) : Forall (fun b => b < 256) (map Byte.to_N s).
Proof. induction s as [|b s IH]; cbn [map]; constructor; [pose proof (Byte.to_N_bounded b); lia|exact IH]. Qed.

Theorem valid_decodes_to_scalars s : utf8_valid s = true -> scalars (utf8_decode s).
Proof. unfold utf8_valid, utf8_decode, utf8_items, decode. intros H. apply decode_f_scalars; [apply bytes_small|exact H]. Qed.

(* ---------- the decomposition table is closed: parts of a decomposition are scalar and decompose to themselves ---------- *)
Fixpoint ns_eqb (a b : list N) : bool :=
  match a, b with [], [] => true | x :: a', y :: b' => (x =? y) && ns_eqb a' b' | _, _ => false end.
Lemma ns_eqb_eq a : forall b, ns_eqb a b = true -> a = b.
Proof.
  induction a as [|x a IH]; intros [|y b] H; cbn [ns_eqb] in H; try discriminate; [reflexivity|].
  apply andb_prop in H as [H1 H2]. apply N.eqb_eq in H1. rewrite H1, (IH b H2). reflexivity.
Qed.

Definition settled_cp (d : N) : bool := scalar d && ns_eqb (decomp d) [d].

Lemma table_closed : forallb (fun kv => forallb settled_cp (snd (snd kv))) (PositiveMap.elements tbl) = true.
Proof. vm_compute. reflexivity. Qed.

Definition rangeN (lo n : nat) : list N := map N.of_nat (seq lo n).
Lemma jamo_settled : forallb settled_cp (rangeN 0x1100 19 ++ rangeN 0x1161 21 ++ rangeN 0x11A8 27) = true.
Proof. vm_compute. reflexivity. Qed.

Lemma in_rangeN x lo n : (N.of_nat lo <= x < N.of_nat (lo + n)) -> In x (rangeN lo n).
Proof. intros H. unfold rangeN. apply in_map_iff. exists (N.to_nat x). split; [lia|apply in_seq; lia]. Qed.

Lemma decomp_parts c d : scalar c = true -> In d (decomp c) -> scalar d = true /\ decomp d = [d].
Proof.
  intros Hc. unfold decomp at 1. destruct (is_hangul c) eqn:H.
  - unfold is_hangul in H. intros Hin.
    assert (S : settled_cp d = true).
    { pose proof jamo_settled as J. rewrite forallb_forall in J. apply J.
      set (s := c - 0xAC00) in *.
      assert (Hs : s < 11172) by (unfold s; lia).
      destruct (s mod 28 =? 0) eqn:T; cbn [In] in Hin.
      - destruct Hin as [<-|[<-|[]]]; apply in_or_app; [left|right; apply in_or_app; left]; apply in_rangeN; lia.
      - destruct Hin as [<-|[<-|[<-|[]]]]; apply in_or_app; [left|right; apply in_or_app; left|right; apply in_or_app; right]; apply in_rangeN; lia. }
    unfold settled_cp in S. apply andb_prop in S as [S1 S2]. split; [exact S1|apply ns_eqb_eq; exact S2].
  - destruct (PositiveMap.find (N.succ_pos c) tbl) as [[k ds]|] eqn:F.
    + destruct ds as [|d0 ds']; cbn [In].
      * intros [<-|[]]. split; [exact Hc|]. unfold decomp. rewrite H, F. reflexivity.
      * intros Hin. pose proof table_closed as K. rewrite forallb_forall in K.
        apply PositiveMap.elements_correct in F. specialize (K _ F). cbn [snd] in K. rewrite forallb_forall in K. specialize (K d Hin).
        unfold settled_cp in K. apply andb_prop in K as [S1 S2]. split; [exact S1|apply ns_eqb_eq; exact S2].
    + cbn [In]. intros [<-|[]]. split; [exact Hc|]. unfold decomp. rewrite H, F. reflexivity.
Qed.

Definition settled_list (l : list N) : Prop := Forall (fun d => scalar d = true /\ decomp d = [d]) l.

Lemma flat_decomp_settled l : scalars l -> settled_list (flat_map decomp l).
Proof.
  induction 1 as [|c l Hc _ IH]; [constructor|]. cbn [flat_map]. apply Forall_app. split; [|exact IH].
  apply Forall_forall. intros d Hd. exact (decomp_parts c d Hc Hd).
Qed.

Lemma flat_decomp_id l : settled_list l -> flat_map decomp l = l.
Proof. induction 1 as [|d l [_ Hd] _ IH]; [reflexivity|]. cbn [flat_map]. rewrite Hd, IH. reflexivity. Qed.

(* ---------- reorder keeps the elements and is idempotent ---------- *)
Lemma insert_front_Forall (P : N -> Prop) c l : P c -> Forall P l -> Forall P (insert_front c l).
Proof.
  intros Hc. induction 1 as [|x l Hx Hl IH]; cbn [insert_front]; [constructor; [exact Hc|constructor]|].
  destruct ((0 <? ccc x) && (ccc x <? ccc c)); constructor; try assumption. constructor; assumption.
Qed.
Lemma reorder_Forall (P : N -> Prop) l : Forall P l -> Forall P (reorder l).
Proof.
  induction 1 as [|c l Hc Hl IH]; cbn [reorder]; [constructor|].
  destruct (ccc c =? 0); [constructor; assumption|apply insert_front_Forall; assumption].
Qed.

Definition fixed (l : list N) : Prop := reorder l = l.

Lemma fixed_tail x m : fixed (x :: m) -> fixed m /\ (ccc x <> 0 -> insert_front x m = x :: m).
Proof.
  unfold fixed. cbn [reorder]. destruct (N.eqb_spec (ccc x) 0) as [E|E].
  - intros H. injection H as H. split; [exact H|]. intros K. contradiction.
  - intros H. destruct (reorder m) as [|y L] eqn:R; cbn [insert_front] in H.
    + injection H as H. subst m. split; [exact R|]. intros _. reflexivity.
    + destruct ((0 <? ccc y) && (ccc y <? ccc x)) eqn:C.
      * injection H as Hy H. subst y. exfalso. lia.
      * injection H as H. subst m. split; [reflexivity|]. intros _. cbn [insert_front]. rewrite C. reflexivity.
Qed.

Lemma insert_front_fixed c : ccc c <> 0 -> forall m, fixed m -> fixed (insert_front c m).
Proof.
  intros Hc. induction m as [|x m IH]; intros Hm.
  - unfold fixed. cbn [insert_front reorder]. destruct (N.eqb_spec (ccc c) 0); [contradiction|reflexivity].
  - destruct (fixed_tail x m Hm) as [Hm' Hx]. cbn [insert_front].
    destruct ((0 <? ccc x) && (ccc x <? ccc c)) eqn:C.
    + (* c moves past x *)
      assert (Hxn : ccc x <> 0) by lia. specialize (IH Hm'). unfold fixed in *. cbn [reorder].
      destruct (N.eqb_spec (ccc x) 0); [contradiction|]. rewrite IH.
      (* x stays in front of insert_front c m *)
      specialize (Hx Hxn). destruct m as [|y m']; cbn [insert_front] in *.
      * assert (C2 : (0 <? ccc c) && (ccc c <? ccc x) = false) by lia. rewrite C2. reflexivity.
      * destruct ((0 <? ccc y) && (ccc y <? ccc c)) eqn:C3; cbn [insert_front].
        -- destruct ((0 <? ccc y) && (ccc y <? ccc x)) eqn:C4; [injection Hx as Hy _; subst y; lia|reflexivity].
        -- assert (C2 : (0 <? ccc c) && (ccc c <? ccc x) = false) by lia. rewrite C2. reflexivity.
    + unfold fixed in *. change (reorder (c :: x :: m)) with (if ccc c =? 0 then c :: reorder (x :: m) else insert_front c (reorder (x :: m))).
      destruct (N.eqb_spec (ccc c) 0); [contradiction|]. rewrite Hm. cbn [insert_front]. rewrite C. reflexivity.
Qed.

Theorem reorder_idem l : reorder (reorder l) = reorder l.
Proof.
  change (fixed (reorder l)). induction l as [|c r IH]; [reflexivity|]. cbn [reorder].
  destruct (N.eqb_spec (ccc c) 0) as [E|E].
  - unfold fixed in *. cbn [reorder]. rewrite E. cbn. rewrite IH. reflexivity.
  - apply insert_front_fixed; assumption.
Qed.

(* ---------- idempotence ---------- *)
Theorem nfkd_idem s : utf8_valid s = true -> nfkd (nfkd s) = nfkd s /\ utf8_valid (nfkd s) = true.
Proof.
  intros Hv. pose proof (valid_decodes_to_scalars s Hv) as Hs.
  pose proof (flat_decomp_settled _ Hs) as Hd.
  assert (Hr : settled_list (nfkd_cps (utf8_decode s))) by (unfold nfkd_cps; apply reorder_Forall; exact Hd).
  assert (Hsc : scalars (nfkd_cps (utf8_decode s))) by (eapply Forall_impl; [|exact Hr]; cbn; intros a [Ha _]; exact Ha).
  destruct (utf8_decode_encode _ Hsc) as [HD HV].
  split; [|exact HV]. unfold nfkd at 1. fold (nfkd s). unfold nfkd at 1. rewrite HD.
  unfold nfkd_cps at 1. rewrite (flat_decomp_id _ Hr). unfold nfkd_cps. rewrite reorder_idem. reflexivity.
Qed.
