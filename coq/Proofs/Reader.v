(* io.ReadFull over every read script, and bip39.go:NewMnemonic on top of it:
   the result is the encoding of the first 4n/3 delivered bytes however they are
   fragmented, and an error (with the empty string) whenever fewer arrive. *)
From Coq Require Import ZifyBool ZifyNat ZifyN.
From B39 Require Import Lib.Base Lib.Bits Lib.Sha256 Model.GenTypes Model.Model.
From B39 Require Import Gen.Gates Gen.Body Spec.Bip39Spec Proofs.Gates Proofs.Tables Proofs.Encode.
Ltac Zify.zify_post_hook ::= Z.to_euclidean_division_equations.

(* the bytes the source delivers: everything up to and including the first
   response that carries an error (the end of the script is EOF) *)
Fixpoint delivered (s : script) : list byte :=
  match s with
  | [] => []
  | (d, None) :: r => d ++ delivered r
  | (d, Some _) :: _ => d
  end.

Lemma read_loop_spec need : forall s got, (length got < need)%nat ->
  let D := got ++ delivered s in
  if (need <=? length D)%nat
  then fst (read_loop need got s) = (firstn need D, None)
  else exists e, snd (fst (read_loop need got s)) = Some e /\ (length (fst (fst (read_loop need got s))) < need)%nat.
Proof.
  induction s as [|[d e] rest IH]; intros got Hlt; cbn zeta.
  - cbn [delivered read_loop]. rewrite app_nil_r.
    destruct (Nat.leb_spec need (length got)); [lia|]. eexists. cbn. split; [reflexivity|exact Hlt].
  - cbn [read_loop].
    destruct (Nat.leb_spec (length d) (need - length got)) as [Hfit|Hbig].
    + destruct (Nat.leb_spec need (length (got ++ d))) as [Hfull|Hshort].
      * assert (Hex : length (got ++ d) = need) by (rewrite app_length in *; lia).
        assert (HD : got ++ delivered ((d, e) :: rest) = (got ++ d) ++ match e with None => delivered rest | Some _ => [] end).
        { cbn [delivered]. destruct e; rewrite <- app_assoc; [rewrite app_nil_r|]; reflexivity. }
        rewrite HD. destruct (Nat.leb_spec need (length ((got ++ d) ++ match e with None => delivered rest | Some _ => [] end))) as [_|Hc];
          [|rewrite app_length in Hc; lia].
        cbn [fst]. f_equal. rewrite firstn_app, Hex, Nat.sub_diag, <- Hex, firstn_all. cbn [firstn]. rewrite app_nil_r. reflexivity.
      * destruct e as [err|].
        -- cbn [delivered]. destruct (Nat.leb_spec need (length (got ++ d))); [lia|].
           eexists. cbn. split; [reflexivity|exact Hshort].
        -- cbn [delivered]. rewrite app_assoc. apply IH. exact Hshort.
    + assert (HD : (need <= length (got ++ delivered ((d, e) :: rest)))%nat).
      { cbn [delivered]. destruct e; rewrite ?app_length; lia. }
      destruct (Nat.leb_spec need (length (got ++ delivered ((d, e) :: rest)))); [|lia].
      cbn [fst]. f_equal.
      assert (Hd : delivered ((d, e) :: rest) = d ++ match e with None => delivered rest | Some _ => [] end)
        by (cbn [delivered]; destruct e; [rewrite app_nil_r|]; reflexivity).
      rewrite Hd. rewrite firstn_app. rewrite (@firstn_all2 _ need got) by lia.
      rewrite firstn_app. replace (need - length got - length d)%nat with 0%nat by lia. cbn [firstn]. rewrite app_nil_r. reflexivity.
Qed.

Theorem read_full_spec need s : (0 < need)%nat ->
  if (need <=? length (delivered s))%nat
  then fst (read_full need s) = (firstn need (delivered s), None)
  else exists e, snd (fst (read_full need s)) = Some e.
Proof.
  intros Hn. unfold read_full. destruct (Nat.eqb_spec need 0); [lia|].
  pose proof (read_loop_spec need s [] Hn) as H. cbn [app] in H.
  destruct (need <=? length (delivered s))%nat; [exact H|]. destruct H as [e [He _]]. exists e. exact He.
Qed.

(* ---------- conservation: io.ReadFull neither drops, duplicates nor reorders a byte of the source ----------
   pending s = the data still to come from the source, in order (error marks forgotten).  Whatever the
   fragmentation and wherever an error sits: the bytes already in the buffer followed by what the source
   still holds before the call = the buffer returned followed by what the source holds afterwards.
   (The harness observes exactly this quantity: `used` = bytes taken from the scripted reader.) *)
Definition pending (s : script) : list byte := concat (map fst s).

Lemma read_loop_conserves need : forall s got,
  got ++ pending s = fst (fst (read_loop need got s)) ++ pending (snd (read_loop need got s)).
Proof.
  induction s as [|[d e] rest IH]; intros got; cbn [read_loop]; [reflexivity|].
  unfold pending in *. cbn [map fst concat].
  destruct (Nat.leb_spec (length d) (need - length got)) as [Hfit|Hbig].
  - destruct (Nat.leb_spec need (length (got ++ d))) as [Hfull|Hshort].
    + cbn [fst snd]. rewrite <- app_assoc. reflexivity.
    + destruct e as [err|].
      * cbn [fst snd]. rewrite <- app_assoc. reflexivity.
      * rewrite <- IH. rewrite <- app_assoc. reflexivity.
  - cbn [fst snd map concat]. rewrite <- app_assoc. f_equal. rewrite app_assoc, firstn_skipn. reflexivity.
Qed.

Theorem read_full_conserves need s :
  pending s = fst (fst (read_full need s)) ++ pending (snd (read_full need s)).
Proof.
  unfold read_full. destruct (need =? 0)%nat; [reflexivity|].
  exact (read_loop_conserves need s []).
Qed.

(* on success exactly `need` bytes have left the source - no read-ahead, nothing skipped *)
Corollary read_full_takes_exactly need s : (0 < need)%nat -> (need <= length (delivered s))%nat ->
  pending s = firstn need (delivered s) ++ pending (snd (read_full need s))
  /\ length (pending s) = (need + length (pending (snd (read_full need s))))%nat.
Proof.
  intros Hn Hd. pose proof (read_full_spec need s Hn) as R. apply Nat.leb_le in Hd. rewrite Hd in R.
  pose proof (read_full_conserves need s) as C. rewrite R in C. cbn [fst] in C.
  split; [exact C|]. rewrite C at 1. rewrite app_length, firstn_length. apply Nat.leb_le in Hd. lia.
Qed.

(* the binary-length variant the model executes is the same function *)
Lemma read_loop_N_eq need : forall s got, read_loop_N need got s = read_loop (N.to_nat need) got s.
Proof.
  induction s as [|[d e] rest IH]; intros got; cbn [read_loop_N read_loop]; [reflexivity|].
  destruct (N.leb_spec (N.of_nat (length d)) (need - N.of_nat (length got))) as [H|H];
    destruct (Nat.leb_spec (length d) (N.to_nat need - length got)) as [H'|H']; try lia.
  - destruct (N.leb_spec need (N.of_nat (length (got ++ d)))) as [K|K];
      destruct (Nat.leb_spec (N.to_nat need) (length (got ++ d))) as [K'|K']; try lia; [reflexivity|].
    destruct e; [reflexivity|apply IH].
  - replace (N.to_nat (need - N.of_nat (length got))) with (N.to_nat need - length got)%nat by lia. reflexivity.
Qed.

Lemma read_full_N_eq need s : read_full_N need s = read_full (N.to_nat need) s.
Proof.
  unfold read_full_N, read_full. destruct (N.eqb_spec need 0) as [->|H]; [reflexivity|].
  destruct (Nat.eqb_spec (N.to_nat need) 0); [lia|]. apply read_loop_N_eq.
Qed.

(* ---------- bip39.go:NewMnemonic ---------- *)
Definition sep_of (lg : Z) : list byte := if Z.eqb lg sep_special_value then sep_special else sep_default.

Theorem NewMnemonic_rejects n lg s : ~ valid_wc_z n -> NewMnemonic n lg s = (Ret ([], Some ErrWordLen), s).
Proof.
  intros Hn. unfold NewMnemonic. destruct (gate_words n) eqn:G; [rewrite gate_words_err_is; reflexivity|].
  exfalso. apply Hn. apply gate_words_spec. exact G.
Qed.

Theorem NewMnemonic_accepts n lg s : valid_wc_z n ->
  let need := Z.to_nat (n + n / 3) in
  if (need <=? length (delivered s))%nat
  then fst (NewMnemonic n lg s) = Ret (encode_with sha256 (sep_of lg) (list_of lg) (firstn need (delivered s)), None)
  else exists e, fst (NewMnemonic n lg s) = Ret ([], Some (ErrIO e)).
Proof.
  intros Hv need. unfold NewMnemonic.
  rewrite (proj2 (gate_words_spec n) Hv).
  assert (Hk : exists k, n = Z.of_nat (k * 3) /\ (4 <= k <= 8)%nat).
  { unfold valid_wc_z in Hv. exists (Z.to_nat (n / 3)). lia. }
  destruct Hk as [k [Hn Hk]].
  assert (Hq : (n + Z.quot n 3 = n + n / 3)%Z) by lia. rewrite Hq.
  assert (Hneg : ((n + n / 3 <? 0) || (281474976710656 <? n + n / 3))%Z = false) by lia. rewrite Hneg. fold need.
  assert (Hneed : need = (4 * k)%nat) by (unfold need; lia).
  pose proof (read_full_spec need s ltac:(lia)) as R.
  rewrite read_full_N_eq. replace (N.to_nat (Z.to_N (n + n / 3))) with need by (unfold need; lia).
  destruct (read_full need s) as [[buf err] s'] eqn:E. cbn [fst snd] in R.
  destruct (need <=? length (delivered s))%nat eqn:L.
  - injection R as -> ->. cbn [fst].
    assert (Hlen : length (firstn need (delivered s)) = (4 * k)%nat) by (apply Nat.leb_le in L; rewrite firstn_length; lia).
    rewrite Hn, (fromEntropy_spec _ k lg Hlen) by lia. reflexivity.
  - destruct R as [e ->]. exists e. reflexivity.
Qed.

(* NewMnemonic takes from its source exactly the bytes it encodes; a rejected word count takes nothing *)
Theorem NewMnemonic_conserves n lg s : valid_wc_z n ->
  let need := Z.to_nat (n + n / 3) in
  exists buf, length buf <= need /\ pending s = buf ++ pending (snd (NewMnemonic n lg s))
    /\ ((need <= length (delivered s))%nat -> buf = firstn need (delivered s)).
Proof.
  intros Hv need. unfold NewMnemonic.
  rewrite (proj2 (gate_words_spec n) Hv).
  assert (Hq : (n + Z.quot n 3 = n + n / 3)%Z) by (unfold valid_wc_z in Hv; lia). rewrite Hq.
  assert (Hneg : ((n + n / 3 <? 0) || (281474976710656 <? n + n / 3))%Z = false) by (unfold valid_wc_z in Hv; lia). rewrite Hneg.
  assert (Hpos : (0 < need)%nat) by (unfold need, valid_wc_z in *; lia).
  rewrite read_full_N_eq. replace (N.to_nat (Z.to_N (n + n / 3))) with need by (unfold need; lia).
  pose proof (read_full_conserves need s) as C. pose proof (read_full_spec need s Hpos) as R.
  destruct (read_full need s) as [[buf err] s'] eqn:E. cbn [fst snd] in C, R.
  exists buf. split; [|split].
  - destruct (need <=? length (delivered s))%nat eqn:L.
    + injection R as -> _. rewrite firstn_length. lia.
    + unfold read_full in E. destruct (need =? 0)%nat eqn:Z0; [apply Nat.eqb_eq in Z0; lia|].
      pose proof (read_loop_spec need s [] Hpos) as Q. cbn [app] in Q. rewrite L, E in Q. cbn [fst snd] in Q.
      destruct Q as [e [_ Hl]]. lia.
  - destruct err; cbn [snd]; exact C.
  - intros Hd. apply Nat.leb_le in Hd. rewrite Hd in R. injection R as -> _. reflexivity.
Qed.
