(* The validator theorems at the level of the exported API: a Language value,
   the canonical list of the language it denotes, any normaliser meeting the
   library contract. *)
From Coq Require Import ZifyBool ZifyNat ZifyN.
From B39 Require Import Lib.Base Lib.Bits Lib.Sha256 Lib.Utf8 Lib.Nfkd Lib.TableWF Model.GenTypes Model.Model.
From B39 Require Import Spec.Bip39Spec Proofs.Gates Proofs.Tables Proofs.BitsMore Proofs.Encode Proofs.Validate Proofs.Unicode Proofs.LibContract Proofs.Roundtrip Proofs.Sound Proofs.Reader Proofs.Seed.
Local Open Scope N_scope.

Lemma canon_ok name l : supported name l -> table_ok (canon name) = true.
Proof. intros Hs. rewrite <- (list_of_canon name l Hs). apply list_of_ok. Qed.

Lemma CheckMnemonicL_canon lib s name l : supported name l ->
  CheckMnemonicL lib s l = CheckMnemonic lib (tbl_get (canon name)) s.
Proof. intros Hs. rewrite (CheckMnemonicL_supported lib s name l Hs), (list_of_canon name l Hs). reflexivity. Qed.

Lemma sep_is_sep name : exists c, is_sep (separator name) c /\ is_space_cp c = true.
Proof.
  unfold separator. destruct (String.eqb name "Japanese").
  - exists 0x3000. split; [apply is_sep_u3000|reflexivity].
  - exists 0x20. split; [apply is_sep_space|reflexivity].
Qed.

Section Lib.
Variable lib : list byte -> list byte.
Hypothesis Hlib : lib_contract lib.

(* ---------- C02 ---------- *)
Theorem generated_validates ent name l : valid_ent (length ent) -> supported name l ->
  exists m, NewMnemonicByEntropy ent l = Ret (m, None) /\ CheckMnemonicL lib m l = Ret None /\ IsMnemonicValidL lib m l = Ret true.
Proof.
  intros Hv Hs. exists (bip39_encode sha256 name ent). split; [apply encode_conforms; assumption|].
  destruct (sep_is_sep name) as [c [Hsep _]].
  assert (H : CheckMnemonicL lib (bip39_encode sha256 name ent) l = Ret None).
  { rewrite (CheckMnemonicL_canon lib _ name l Hs).
    exact (roundtrip (canon name) (canon_ok name l Hs) lib Hlib (separator name) c ent Hsep Hv). }
  split; [exact H|]. unfold IsMnemonicValidL, IsMnemonicValid. unfold CheckMnemonicL in H. rewrite H. reflexivity.
Qed.

(* through NewMnemonic, for every script that delivers enough bytes *)
Theorem new_mnemonic_validates n name l s : valid_wc_z n -> supported name l ->
  (Z.to_nat (n + n / 3) <= length (delivered s))%nat ->
  exists m, fst (NewMnemonic n l s) = Ret (m, None) /\ CheckMnemonicL lib m l = Ret None.
Proof.
  intros Hn Hs Hd. pose proof (NewMnemonic_accepts n l s Hn) as H. cbn zeta in H.
  apply Nat.leb_le in Hd. rewrite Hd in H. apply Nat.leb_le in Hd.
  set (ent := firstn (Z.to_nat (n + n / 3)) (delivered s)) in *.
  assert (Hve : valid_ent (length ent)).
  { unfold ent. rewrite firstn_length. apply valid_ent_nat. unfold valid_wc_z in Hn. unfold valid_ent_z. lia. }
  destruct (generated_validates ent name l Hve Hs) as [m [Hm [Hc _]]].
  exists m. split; [|exact Hc]. rewrite H. rewrite (NewMnemonicByEntropy_valid ent l Hve) in Hm. exact Hm.
Qed.

(* every sentence of 12..24 (step 3) canonical words with a correct checksum, joined by U+0020 or U+3000 *)
Theorem all_valid_accepted name l sep c idx : supported name l -> is_sep sep c ->
  valid_wc (length idx) -> Forall (fun i => i < 2048) idx -> checksum_okb sha256 idx = true ->
  CheckMnemonicL lib (join sep (map (word_at (canon name)) idx)) l = Ret None.
Proof.
  intros Hs Hsep Hwc Hb Hcs. rewrite (CheckMnemonicL_canon lib _ name l Hs).
  exact (accept_valid (canon name) (canon_ok name l Hs) lib Hlib sep c idx Hsep Hwc Hb Hcs).
Qed.

(* ---------- C03 ---------- *)
Theorem accepted_is_valid name l s : supported name l -> CheckMnemonicL lib s l = Ret None ->
  valid_sentence sha256 name (ws_tokens (nfkd s)).
Proof.
  intros Hs H. rewrite (CheckMnemonicL_canon lib s name l Hs) in H.
  exact (accepted_sound (canon name) (canon_ok name l Hs) lib Hlib s H).
Qed.

Theorem valid_iff_check s l b : IsMnemonicValidL lib s l = Ret b -> (b = true <-> CheckMnemonicL lib s l = Ret None).
Proof.
  unfold IsMnemonicValidL, IsMnemonicValid, CheckMnemonicL. destruct (CheckMnemonic lib _ s) as [[e|]|w]; cbn [omap]; intros H; try discriminate;
  injection H as <-; split; intros K; try discriminate; reflexivity.
Qed.

Theorem unsupported_rejects s l : (forall name, ~ supported name l) -> CheckMnemonicL lib s l <> Ret None.
Proof. intros Hn. rewrite (CheckMnemonicL_unsupported lib s l Hn). apply nil_map_rejects. Qed.

(* ---------- C10 ---------- *)
Theorem same_nfkd_same_verdict s1 s2 l : utf8_valid s1 = true -> utf8_valid s2 = true -> nfkd s1 = nfkd s2 ->
  (CheckMnemonicL lib s1 l = Ret None <-> CheckMnemonicL lib s2 l = Ret None).
Proof.
  intros V1 V2 E. destruct (classic_supported l) as [[name Hs]|Hn].
  - rewrite !(CheckMnemonicL_canon lib _ name l Hs).
    exact (same_nfkd_same_result (canon name) (canon_ok name l Hs) lib Hlib s1 s2 V1 V2 E).
  - split; intros H; exfalso; exact (unsupported_rejects _ l Hn H).
Qed.

(* ---------- C15 ---------- *)
(* inside xsafe the implementation's tokens are those of the NFKD form, and the result is the
   specification's classification of them *)
Theorem classification name l s : supported name l -> utf8_valid s = true -> xsafe s = true ->
  CheckMnemonicL lib s l =
  Ret (err_of_verdict (classify sha256 (tbl_get (canon name)) (split_at (fun b => Byte.eqb b x20) (nfkd s)))).
Proof.
  intros Hs V X. rewrite (CheckMnemonicL_canon lib s name l Hs).
  rewrite (CheckMnemonic_spec lib (tbl_get (canon name)) (tbl_get_bound _ (canon_ok name l Hs))).
  rewrite (LC1 _ Hlib s V X). reflexivity.
Qed.

Lemma tokens_length s : utf8_valid s = true ->
  length (split_at (fun b => Byte.eqb b x20) (lib s)) = length (split_at (fun b => Byte.eqb b x20) (nfkd s)).
Proof. intros V. rewrite !count_sp_split, (LC3 _ Hlib s V). reflexivity. Qed.

(* the word-count verdict does not even need xsafe: the library keeps the number of 0x20 bytes *)
Theorem wrong_count name l s : supported name l -> utf8_valid s = true ->
  ~ valid_wc (length (split_at (fun b => Byte.eqb b x20) (nfkd s))) -> CheckMnemonicL lib s l = Ret (Some ErrWordLen).
Proof.
  intros Hs V Hn. rewrite (CheckMnemonicL_canon lib s name l Hs).
  rewrite (CheckMnemonic_spec lib (tbl_get (canon name)) (tbl_get_bound _ (canon_ok name l Hs))).
  unfold classify. rewrite (tokens_length s V).
  destruct (valid_wc_b _) eqn:W; [apply valid_wc_b_spec in W; contradiction|reflexivity].
Qed.

(* outside xsafe with an acceptable count: an unknown-word error naming a token that is not in the list *)
Theorem outside_xsafe name l s : supported name l -> utf8_valid s = true -> xsafe s = false ->
  valid_wc (length (split_at (fun b => Byte.eqb b x20) (nfkd s))) ->
  exists t i, CheckMnemonicL lib s l = Ret (Some (ErrUnknownWord t i)) /\ ~ In t (canon name).
Proof.
  intros Hs V X Hv. rewrite (CheckMnemonicL_canon lib s name l Hs).
  pose proof (canon_ok name l Hs) as Hok.
  rewrite (CheckMnemonic_spec lib (tbl_get (canon name)) (tbl_get_bound _ Hok)). unfold classify.
  rewrite (tokens_length s V). rewrite (proj2 (valid_wc_b_spec _) Hv). cbn [negb].
  destruct (first_unknown (tbl_get (canon name)) _ 0) as [[t i]|] eqn:F.
  - exists t, i. split; [reflexivity|]. clear -F.
    revert F. generalize 0%nat. induction (split_at _ (lib s)) as [|x r IH]; intros k F; cbn [first_unknown] in F; [discriminate|].
    destruct (tbl_get (canon name) x) eqn:G.
    + exact (IH _ F).
    + injection F as <- <-. unfold tbl_get in G. destruct (index_of x (canon name)) eqn:I; [discriminate|]. apply index_of_None. exact I.
  - exfalso. destruct (first_unknown_none_lookup _ _ _ F) as [idx His].
    destruct (lookup_all_words (canon name) _ _ His) as [Ht Hin].
    assert (K : has_cgj (lib s) = false).
    { rewrite <- (join_split (lib s)). apply has_cgj_join. eapply Forall_impl; [|exact Hin]. cbn. intros w Hw.
      exact (wok_nocgj _ (tok_words _ Hok _ Hw)). }
    rewrite (LC2 _ Hlib s V X) in K. discriminate.
Qed.
End Lib.

(* ---------- C10: every spelling whose NFKD form is a valid sentence is accepted ---------- *)
Theorem valid_spelling_accepted lib (Hlib : lib_contract lib) name l idx s : supported name l -> utf8_valid s = true ->
  valid_wc (length idx) -> Forall (fun i => i < 2048) idx -> checksum_okb sha256 idx = true ->
  nfkd s = join [x20] (map (word_at (canon name)) idx) ->
  CheckMnemonicL lib s l = Ret None.
Proof.
  intros Hs V Hwc Hb Hcs E.
  pose proof (all_valid_accepted lib Hlib name l [x20] 0x20 idx Hs is_sep_space Hwc Hb Hcs) as H.
  apply (same_nfkd_same_verdict lib Hlib s (join [x20] (map (word_at (canon name)) idx)) l); [exact V| |  |exact H].
  { apply (valid_join [x20] 0x20); [apply is_sep_space|]. apply (words_of_indices_ok _ (canon_ok name l Hs)). exact Hb. }
  rewrite E. symmetry. apply (nfkd_join [x20] 0x20); [apply is_sep_space|].
  apply (words_of_indices_ok _ (canon_ok name l Hs)). exact Hb.
Qed.

(* ---------- C06 at the API level ---------- *)
Theorem new_mnemonic_delivers n name l s : valid_wc_z n -> supported name l ->
  let need := Z.to_nat (n + n / 3) in
  if (need <=? length (delivered s))%nat
  then fst (NewMnemonic n l s) = Ret (bip39_encode sha256 name (firstn need (delivered s)), None)
       /\ length (bip39_indices sha256 (firstn need (delivered s))) = Z.to_nat n
  else exists e, fst (NewMnemonic n l s) = Ret ([], Some (ErrIO e)).
Proof.
  intros Hn Hs need. pose proof (NewMnemonic_accepts n l s Hn) as H. cbn zeta in H. fold need in H.
  destruct (need <=? length (delivered s))%nat eqn:L; [|exact H].
  split.
  - rewrite H. unfold sep_of. rewrite (separator_is name l Hs), (list_of_canon name l Hs). reflexivity.
  - rewrite indices_length, firstn_length. apply Nat.leb_le in L. unfold need in *. unfold valid_wc_z in Hn. lia.
Qed.

(* ---------- C11: U+3000 vs U+0020 between list words ---------- *)
Theorem seed_separators lib (Hlib : lib_contract lib) (tbl : list (list byte)) (idx : list N) (p : list byte) :
  table_ok tbl = true -> Forall (fun i => i < 2048) idx -> utf8_valid p = true -> xsafe p = true ->
  MnemonicToSeed lib (join u3000 (map (word_at tbl) idx)) p = MnemonicToSeed lib (join [x20] (map (word_at tbl) idx)) p.
Proof.
  intros Htbl Hb Vp Xp. pose proof (words_of_indices_ok tbl Htbl idx Hb) as Hws.
  apply (seed_same_nfkd lib Hlib); [exact (valid_join _ _ _ is_sep_u3000 Hws)|exact Vp|exact (valid_join _ _ _ is_sep_space Hws)|exact Vp| |reflexivity| |exact Xp].
  - rewrite (nfkd_join _ _ _ is_sep_u3000 Hws), (nfkd_join _ _ _ is_sep_space Hws). reflexivity.
  - exact (xsafe_sentence _ _ _ is_sep_u3000 Hws).
Qed.
