(* Closed world of callees: everything the modelled functions (and every package function they reach)
   call is something the model accounts for - pure library functions, the modelled dependencies, the
   once.Do of mapping(), other functions of the package.  A pool, a cache, an in-place sort, a goroutine,
   a clock, the environment, unsafe, another normal form: none of them is in the list, so introducing
   one breaks this computed fact (Gen/Calls.v is regenerated from the source on every run). *)
From B39 Require Import Lib.Base Model.GenTypes Gen.Lang Gen.Calls.
Local Open Scope string_scope.

Definition allowed_exact : list string := [
  (* builtins and conversions *)
  "len"; "cap"; "make"; "new"; "append"; "copy"; "min"; "max";
  "uint"; "uint8"; "uint16"; "uint32"; "uint64"; "int"; "int8"; "int16"; "int32"; "int64"; "byte"; "rune"; "string";
  "[]byte"; "[]rune"; "Language";
  (* math/big, as value-returning or receiver-local arithmetic *)
  "math/big.NewInt"; ".Add"; ".And"; ".Or"; ".Xor"; ".Not"; ".Sub"; ".Mul"; ".Quo"; ".Rem"; ".QuoRem"; ".Div"; ".Mod"; ".DivMod";
  ".Lsh"; ".Rsh"; ".Cmp"; ".CmpAbs"; ".Sign"; ".Bit"; ".BitLen"; ".Bytes"; ".FillBytes"; ".SetBytes"; ".Set"; ".SetInt64"; ".SetUint64";
  ".SetBit"; ".Int64"; ".Uint64"; ".IsInt64"; ".IsUint64"; ".TrailingZeroBits";
  (* hashing *)
  "crypto/sha256.New"; "crypto/sha256.Sum256"; "crypto/sha512.New"; "crypto/sha512.Sum512"; ".Sum"; ".Write"; ".Reset";
  (* the modelled dependencies *)
  "golang.org/x/crypto/pbkdf2.Key"; "io.ReadFull";
  (* errors and formatting *)
  "fmt.Errorf"; "fmt.Sprintf"; "errors.New"; "errors.Is"; "errors.As"; ".Error";
  (* strings.Builder / bytes.Buffer as local values *)
  ".WriteString"; ".WriteByte"; ".WriteRune"; ".Grow"; ".Len"; ".String"
].
Definition allowed_prefix : list string := [
  "strings."; "bytes."; "strconv."; "unicode/utf8."; "golang.org/x/text/unicode/norm.NFKD."
].

Definition str_in (x : string) (l : list string) : bool := existsb (String.eqb x) l.

(* methods of the package's own types are recorded as ".name": the functions that name may denote *)
Definition suffix_dot (m : string) (k : string) : bool :=
  (* k = T ++ m for some T, where m starts with "." *)
  let lm := String.length m in let lk := String.length k in
  (lm <=? lk)%nat && String.eqb (String.substring (lk - lm) lm k) m.

Definition pkg_targets (c : string) : list string :=
  filter (fun k => String.eqb k c || (String.prefix "." c && suffix_dot c k)) (map fst fn_calls).

Definition allowed (c : string) : bool :=
  str_in c allowed_exact || existsb (fun p => String.prefix p c) allowed_prefix
  || str_in c (map (fun m => mc_once m ++ ".Do") mapping_cases)
  || negb (match pkg_targets c with [] => true | _ => false end).

Definition calls_of (f : string) : list string :=
  match find (fun e => String.eqb (fst e) f) fn_calls with Some e => snd e | None => [] end.
Definition fn_defined (f : string) : bool := str_in f (map fst fn_calls).

(* the package functions reachable from f (fuel = number of functions) *)
Fixpoint reach (fuel : nat) (todo seen : list string) : list string :=
  match fuel with
  | O => seen
  | S k =>
    match todo with
    | [] => seen
    | f :: r =>
      if str_in f seen then reach k r seen
      else reach k (flat_map pkg_targets (calls_of f) ++ r) (f :: seen)
    end
  end.

(* The model is read from the package as users build it (no build tag); the harness runs it built with the verif tag
   (the randomness hook).  The two builds may differ only by the two add-only hook files, byte for byte as committed
   (hook commits ebe586e, c2be5f6 of /repo): any other file whose inclusion depends on the tag - in either direction -
   means that what is executed and what is modelled are different programs. *)
Definition pinned_tag_dependent_files : list (string * string) := [
  ("verif_hook.go", "c3d4e2d20d261a9b5bcf043ffac851e01fb35faae449cf717ca97e1cf54b1fe0");
  ("update-wordlist/verif_hook.go", "867bd44182fc18bf73742c63b9420bc90d384b143340dbda39109304a2c6fa6c")].
Definition pair_eqb (a b : string * string) : bool := String.eqb (fst a) (fst b) && String.eqb (snd a) (snd b).
Fixpoint pairs_eqb (l1 l2 : list (string * string)) : bool :=
  match l1, l2 with
  | [], [] => true
  | a :: r1, b :: r2 => pair_eqb a b && pairs_eqb r1 r2
  | _, _ => false
  end.
Definition build_files_ok : bool := pairs_eqb tag_dependent_files pinned_tag_dependent_files.

Definition reach_ok (f : string) : bool :=
  build_files_ok && fn_defined f &&
  forallb (fun g => forallb allowed (calls_of g)) (reach (4 * length fn_calls + 8) [f] []).

Lemma calls_validator : reach_ok "CheckMnemonic" = true /\ reach_ok "IsMnemonicValid" = true.
Proof. split; vm_compute; reflexivity. Qed.
Lemma calls_generator : reach_ok "NewMnemonicByEntropy" = true /\ reach_ok "NewMnemonic" = true /\ reach_ok "fromEntropy" = true.
Proof. repeat split; vm_compute; reflexivity. Qed.
Lemma calls_seed : reach_ok "MnemonicToSeed" = true.
Proof. vm_compute. reflexivity. Qed.
Lemma calls_lang : reach_ok "Language.String" = true /\ reach_ok "Language.list" = true /\ reach_ok "Language.mapping" = true.
Proof. repeat split; vm_compute; reflexivity. Qed.

(* every function of the package, reachable or not (nothing hides in an unreferenced helper or an init) *)
Definition all_calls_ok : bool := build_files_ok && forallb (fun e => forallb allowed (snd e)) fn_calls.
Lemma all_calls_ok_holds : all_calls_ok = true.
Proof. vm_compute. reflexivity. Qed.

(* ---------- the public surface is the modelled one ---------- *)
Definition last_component (f : string) : string :=
  match String.index 0 "." f with
  | Some k => String.substring (S k) (String.length f - S k) f
  | None => f
  end.
Definition is_exported (f : string) : bool :=
  match last_component f with
  | String c _ => let n := Ascii.nat_of_ascii c in (65 <=? n)%nat && (n <=? 90)%nat
  | EmptyString => false
  end.
Definition api_expected : list string :=
  ["NewMnemonic"; "NewMnemonicByEntropy"; "CheckMnemonic"; "IsMnemonicValid"; "MnemonicToSeed"; "Language.String"].
(* every exported function or method of the root package (guard-off build) is one of the six modelled entry points,
   and all six exist; Language is Go's int *)
Definition exported_api_ok : bool :=
  forallb (fun e => implb (is_exported (fst e)) (str_in (fst e) api_expected)) fn_calls
  && forallb fn_defined api_expected
  && String.eqb lang_underlying "int".
Lemma exported_api_ok_holds : exported_api_ok = true.
Proof. vm_compute. reflexivity. Qed.
