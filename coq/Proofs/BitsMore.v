(* More about MSB-first bit lists: injectivity of val on a fixed width, bits of a
   value, packing bits into bytes, fixed-width big-endian byte strings and
   big.Int.Bytes(). *)
From Coq Require Import ZifyBool ZifyNat ZifyN.
From B39 Require Import Lib.Base Lib.Bits Model.Model.
Local Open Scope N_scope.

Lemma val_cons b l : val (b :: l) = N.b2n b * 2 ^ N.of_nat (length l) + val l.
Proof. change (b :: l) with ([b] ++ l). rewrite val_app. change (val [b]) with (2 * 0 + N.b2n b). lia. Qed.

Lemma val_inj a : forall b, length a = length b -> val a = val b -> a = b.
Proof.
  induction a as [|x a IH]; intros [|y b] Hl Hv; try discriminate; [reflexivity|].
  cbn [length] in Hl. injection Hl as Hl.
  rewrite !val_cons in Hv. rewrite <- Hl in Hv.
  pose proof (val_bound a) as Ba. pose proof (val_bound b) as Bb. rewrite <- Hl in Bb.
  set (p := 2 ^ N.of_nat (length a)) in *.
  assert (Hxy : x = y).
  { destruct x, y; cbn [N.b2n] in Hv; try reflexivity; exfalso; lia. }
  subst y. f_equal. apply IH; [exact Hl|]. lia.
Qed.

Lemma bits_of_N_val w c : length c = w -> bits_of_N w (val c) = c.
Proof.
  intros H. apply val_inj; [rewrite bits_of_N_length; symmetry; exact H|].
  rewrite val_bits_of_N. apply N.mod_small. rewrite <- H. apply val_bound.
Qed.

(* ---------- chunks ---------- *)
Lemma chunks_length {A} k n (l : list A) : length (chunks k n l) = n.
Proof. revert l. induction n as [|n IH]; intros l; cbn [chunks length]; [reflexivity|]. rewrite IH. reflexivity. Qed.

Lemma concat_chunks {A} k n (l : list A) : length l = (k * n)%nat -> concat (chunks k n l) = l.
Proof.
  revert l. induction n as [|n IH]; intros l H; cbn [chunks concat].
  - rewrite Nat.mul_0_r in H. destruct l; [reflexivity|discriminate].
  - rewrite IH by (rewrite skipn_length; lia). apply firstn_skipn.
Qed.

Lemma chunks_Forall_length {A} k n (l : list A) : length l = (k * n)%nat -> Forall (fun c => length c = k) (chunks k n l).
Proof.
  revert l. induction n as [|n IH]; intros l H; cbn [chunks]; constructor.
  - rewrite firstn_length. lia.
  - apply IH. rewrite skipn_length. lia.
Qed.

Lemma chunks_app_exact {A} k n m (a b : list A) : length a = (k * n)%nat ->
  chunks k (n + m) (a ++ b) = chunks k n a ++ chunks k m b.
Proof.
  revert a. induction n as [|n IH]; intros a H.
  - rewrite Nat.mul_0_r in H. destruct a; [reflexivity|discriminate].
  - cbn [Nat.add chunks app]. assert (Hk : (k <= length a)%nat) by lia.
    rewrite firstn_app, skipn_app. replace (k - length a)%nat with 0%nat by lia. cbn [firstn skipn]. rewrite app_nil_r.
    f_equal. apply IH. rewrite skipn_length. lia.
Qed.

Lemma flat_map_concat_map {A B} (f : A -> list B) l : flat_map f l = concat (map f l).
Proof. induction l as [|x l IH]; cbn; [reflexivity|]. rewrite IH. reflexivity. Qed.

(* cutting into w-bit groups, taking values, and writing the values back as w bits is the identity *)
Lemma bits_of_vals w n (B : list bool) : length B = (w * n)%nat ->
  flat_map (bits_of_N w) (map val (chunks w n B)) = B.
Proof.
  intros H. rewrite flat_map_concat_map, map_map.
  rewrite <- (concat_chunks w n B H) at 2. f_equal.
  pose proof (chunks_Forall_length w n B H) as F.
  induction F as [|c cs Hc _ IH]; cbn [map]; [reflexivity|]. rewrite bits_of_N_val by exact Hc. rewrite IH. reflexivity.
Qed.

Lemma vals_bound w n (B : list bool) : length B = (w * n)%nat ->
  Forall (fun i => i < 2 ^ N.of_nat w) (map val (chunks w n B)).
Proof.
  intros H. pose proof (chunks_Forall_length w n B H) as F. rewrite Forall_map.
  eapply Forall_impl; [|exact F]. cbn. intros c Hc. rewrite <- Hc. apply val_bound.
Qed.

(* ---------- bits <-> bytes ---------- *)
Lemma bits_of_byte_of_val c : length c = 8%nat -> bits_of_byte (byte_of_N (val c)) = c.
Proof.
  intros H. unfold bits_of_byte. rewrite to_N_byte_of_N.
  rewrite N.mod_small by (pose proof (val_bound c) as Hb; rewrite H in Hb; exact Hb).
  apply bits_of_N_val. exact H.
Qed.

Lemma bits_bytes_of_bits bs n : length bs = (8 * n)%nat -> bits (bytes_of_bits bs) = bs.
Proof.
  intros H. unfold bytes_of_bits, bits.
  assert (Hd : (length bs / 8 = n)%nat) by (rewrite H, Nat.mul_comm; apply Nat.div_mul; lia). rewrite Hd.
  rewrite flat_map_concat_map, map_map. rewrite <- (concat_chunks 8 n bs H) at 2. f_equal.
  pose proof (chunks_Forall_length 8 n bs H) as F.
  induction F as [|c cs Hc _ IH]; cbn [map]; [reflexivity|]. rewrite bits_of_byte_of_val by exact Hc. rewrite IH. reflexivity.
Qed.

Lemma app_inj_length {A} (a : list A) : forall b c d, length a = length b -> a ++ c = b ++ d -> a = b /\ c = d.
Proof.
  induction a as [|x a IH]; intros [|y b] c d Hl H; try discriminate; cbn [app] in H.
  - split; [reflexivity|exact H].
  - injection H as Hx H. injection Hl as Hl. destruct (IH b c d Hl H) as [-> ->]. subst. split; reflexivity.
Qed.

Lemma bits_of_byte_inj a b : bits_of_byte a = bits_of_byte b -> a = b.
Proof.
  intros H. apply (f_equal val) in H. rewrite !val_bits_of_byte in H.
  rewrite <- (byte_of_to_N a), <- (byte_of_to_N b), H. reflexivity.
Qed.

Lemma bits_inj a : forall b, bits a = bits b -> a = b.
Proof.
  induction a as [|x a IH]; intros [|y b] H.
  - reflexivity.
  - apply (f_equal (@length bool)) in H. rewrite !bits_length in H. cbn in H. lia.
  - apply (f_equal (@length bool)) in H. rewrite !bits_length in H. cbn in H. lia.
  - cbn [bits flat_map] in H. fold (bits a) in H. fold (bits b) in H.
    assert (H1 : bits_of_byte x = bits_of_byte y /\ bits a = bits b).
    { apply app_inj_length; [|exact H]. unfold bits_of_byte. rewrite !bits_of_N_length. reflexivity. }
    destruct H1 as [H1 H2]. f_equal; [apply bits_of_byte_inj; exact H1|apply IH; exact H2].
Qed.

Lemma bytes_of_bits_bits l : bytes_of_bits (bits l) = l.
Proof. apply bits_inj. apply (bits_bytes_of_bits _ (length l)). apply bits_length. Qed.

Lemma bytes_of_bits_length bs n : length bs = (8 * n)%nat -> length (bytes_of_bits bs) = n.
Proof.
  intros H. unfold bytes_of_bits. rewrite map_length, chunks_length.
  rewrite H, Nat.mul_comm. apply Nat.div_mul. lia.
Qed.

(* ---------- fixed-width big-endian byte strings ---------- *)
Lemma be_to_N_bound l : be_to_N l < 2 ^ N.of_nat (8 * length l).
Proof. rewrite be_to_N_val. rewrite <- bits_length. apply val_bound. Qed.

Lemma be_to_N_inj a b : length a = length b -> be_to_N a = be_to_N b -> a = b.
Proof.
  intros Hl Hv. apply bits_inj. apply val_inj; [rewrite !bits_length; lia|]. rewrite <- !be_to_N_val. exact Hv.
Qed.

Lemma be_to_N_zeros k l : be_to_N (repeat x00 k ++ l) = be_to_N l.
Proof.
  induction k as [|k IH]; [reflexivity|]. cbn [repeat app]. unfold be_to_N in *. cbn [fold_left].
  change (0 * 256 + Byte.to_N x00) with 0. exact IH.
Qed.

Lemma be_to_N_app a b : be_to_N (a ++ b) = be_to_N a * 2 ^ N.of_nat (8 * length b) + be_to_N b.
Proof. rewrite !be_to_N_val. unfold bits. rewrite flat_map_app. fold (bits a). fold (bits b). rewrite val_app, bits_length. reflexivity. Qed.

(* m low-order bytes of v, most significant first *)
Definition be_bytes (m : nat) (v : N) : list byte :=
  map (fun i => byte_of_N (N.shiftr v (8 * N.of_nat i))) (rev (seq 0 m)).

Lemma be_bytes_length m v : length (be_bytes m v) = m.
Proof. unfold be_bytes. rewrite map_length, rev_length, seq_length. reflexivity. Qed.

Lemma be_to_N_be_bytes m : forall v, be_to_N (be_bytes m v) = v mod 2 ^ N.of_nat (8 * m).
Proof.
  induction m as [|m IH]; intros v.
  - cbn. rewrite N.mod_1_r. reflexivity.
  - unfold be_bytes. rewrite seq_S, rev_app_distr. cbn [rev app map Nat.add].
    fold (be_bytes m v).
    change (byte_of_N (N.shiftr v (8 * N.of_nat m)) :: be_bytes m v) with ([byte_of_N (N.shiftr v (8 * N.of_nat m))] ++ be_bytes m v).
    rewrite be_to_N_app, be_bytes_length, IH.
    unfold be_to_N at 1. cbn [fold_left]. rewrite to_N_byte_of_N, N.shiftr_div_pow2.
    replace (N.of_nat (8 * S m)) with (N.of_nat (8 * m) + 8) by lia. rewrite N.pow_add_r.
    change (2 ^ 8) with 256.
    replace (8 * N.of_nat m) with (N.of_nat (8 * m)) by lia.
    set (p := 2 ^ N.of_nat (8 * m)). assert (Hp : p <> 0) by (apply N.pow_nonzero; discriminate).
    rewrite N.mod_mul_r by lia. lia.
Qed.

Lemma big_bytes_is v : big_bytes v = be_bytes (N.to_nat ((N.size v + 7) / 8)) v.
Proof. reflexivity. Qed.

Lemma size_bound v : v < 2 ^ N.size v.
Proof. apply N.size_gt. Qed.

Lemma big_bytes_val v : be_to_N (big_bytes v) = v.
Proof.
  rewrite big_bytes_is, be_to_N_be_bytes. apply N.mod_small.
  eapply N.lt_le_trans; [apply size_bound|]. apply N.pow_le_mono_r; [discriminate|]. lia.
Qed.

Lemma size_le_of_lt v k : v < 2 ^ k -> N.size v <= k.
Proof.
  intros H. destruct (N.eq_dec v 0) as [->|Hnz]; [cbn; lia|].
  rewrite N.size_log2 by exact Hnz. apply N.le_succ_l. apply N.log2_lt_pow2; lia.
Qed.

Lemma big_bytes_length v total : v < 2 ^ N.of_nat (8 * total) -> (length (big_bytes v) <= total)%nat.
Proof.
  intros H. rewrite big_bytes_is, be_bytes_length. pose proof (size_le_of_lt _ _ H). lia.
Qed.

(* the fix of F1: left-padding big.Int.Bytes() to the full width gives THE width-byte encoding *)
Lemma padded_big_bytes total bs : length bs = total ->
  repeat x00 (total - length (big_bytes (be_to_N bs))) ++ big_bytes (be_to_N bs) = bs.
Proof.
  intros H. pose proof (be_to_N_bound bs) as Hb. rewrite H in Hb.
  pose proof (big_bytes_length _ _ Hb) as Hl.
  apply be_to_N_inj.
  - rewrite app_length, repeat_length. lia.
  - rewrite be_to_N_zeros. apply big_bytes_val.
Qed.
