(* C07 - By default fresh mnemonics draw on the operating-system CSPRNG. *)
From B39 Require Import Proofs.Calls.
From B39 Require Import Lib.Base Lib.Sha256 Model.GenTypes Model.Model Model.State Spec.Bip39Spec.
From B39 Require Import Proofs.Gates Proofs.Tables Proofs.Reader Proofs.Inventory Proofs.Source Proofs.Api.

(* facts computed on the current source (coq/Gen/Inventory.v, Gen/Body.v, regenerated every run):
   the reader handed to io.ReadFull in NewMnemonic is the package-level source variable; its initializer
   is the selector Reader of import path crypto/rand; it has no write site in a guard-off build; the
   package has no init() function, imports no math/rand and reads no environment variable *)
Theorem C07_default_source : default_source_ok = true /\ source_initializer = Some "crypto/rand.Reader"%string.
Proof. split; [exact default_source_ok_holds|exact source_initializer_is]. Qed.

(* in every history without the (verif-only) swap operation the variable still holds its initializer *)
Theorem C07_unswapped : forall h : list hop, forallb is_api h = true -> source_after h = SrcInitializer.
Proof. exact source_without_swap. Qed.

(* the output is a function of the source's bytes only: the BIP39 encoding of the first 4n/3 delivered
   bytes (C06_newmnemonic), hence equal for any two sources delivering the same bytes *)
Theorem C07_function_of_bytes : forall (n l : Z) (s1 s2 : script), valid_wc_z n ->
  let need := Z.to_nat (n + n / 3) in
  (need <= length (delivered s1))%nat -> (need <= length (delivered s2))%nat ->
  firstn need (delivered s1) = firstn need (delivered s2) ->
  fst (NewMnemonic n l s1) = fst (NewMnemonic n l s2).
Proof. exact function_of_delivered_bytes. Qed.

Theorem C07_encoding_of_bytes : forall (n : Z) (name : string) (l : Z) (s : script),
  valid_wc_z n -> supported name l ->
  let need := Z.to_nat (n + n / 3) in
  if (need <=? length (delivered s))%nat
  then fst (NewMnemonic n l s) = Ret (bip39_encode sha256 name (firstn need (delivered s)), None)
       /\ length (bip39_indices sha256 (firstn need (delivered s))) = Z.to_nat n
  else exists e, fst (NewMnemonic n l s) = Ret ([], Some (ErrIO e)).
Proof. exact new_mnemonic_delivers. Qed.

(* the functions this property is about, and every package function they reach, call only what the model
   accounts for (closed world of callees, computed on coq/Gen/Calls.v, regenerated from the source every run) *)
Theorem C07_callees : reach_ok "NewMnemonicByEntropy" = true /\ reach_ok "NewMnemonic" = true /\ reach_ok "fromEntropy" = true.
Proof. exact calls_generator. Qed.

Print Assumptions C07_default_source.
Print Assumptions C07_unswapped.
Print Assumptions C07_function_of_bytes.
Print Assumptions C07_encoding_of_bytes.
