(* C15 - Validation errors identify the kind of failure. *)
From B39 Require Import Proofs.Calls.
From B39 Require Import Lib.Base Lib.Utf8 Lib.Sha256 Lib.Nfkd Model.GenTypes Model.Model Spec.Bip39Spec.
From B39 Require Import Proofs.Tables Proofs.LibContract Proofs.Validate Proofs.Sound Proofs.Api.

(* for every string whose NFKD form the library computes exactly (xsafe; every string made of list
   words and separators is one): the result is the specification's classification of the
   0x20-separated tokens of the NFKD form -
     count not in {12,15,18,21,24}                          -> ErrWordLen (whatever else is wrong)
     else the FIRST token that is not in the list, at pos i -> the unknown-word error naming it and i
     else checksum bits wrong                               -> ErrChecksumIncorrect
     else                                                   -> nil                                  *)
Theorem C15_classification : forall lib, lib_contract lib -> forall (name : string) (l : Z) (s : list byte),
  supported name l -> utf8_valid s = true -> xsafe s = true ->
  CheckMnemonicL lib s l =
  Ret (err_of_verdict (classify sha256 (tbl_get (canon name)) (split_at (fun b => Byte.eqb b x20) (nfkd s)))).
Proof. exact classification. Qed.

(* a wrong word count gives ErrWordLen for EVERY valid UTF-8 string (xsafe or not) *)
Theorem C15_count : forall lib, lib_contract lib -> forall (name : string) (l : Z) (s : list byte),
  supported name l -> utf8_valid s = true -> ~ valid_wc (length (split_at (fun b => Byte.eqb b x20) (nfkd s))) ->
  CheckMnemonicL lib s l = Ret (Some ErrWordLen).
Proof. exact wrong_count. Qed.

(* outside xsafe, an acceptable count still gives an unknown-word error naming a token not in the list *)
Theorem C15_outside_xsafe : forall lib, lib_contract lib -> forall (name : string) (l : Z) (s : list byte),
  supported name l -> utf8_valid s = true -> xsafe s = false -> valid_wc (length (split_at (fun b => Byte.eqb b x20) (nfkd s))) ->
  exists t i, CheckMnemonicL lib s l = Ret (Some (ErrUnknownWord t i)) /\ ~ In t (canon name).
Proof. exact outside_xsafe. Qed.

(* nil only for valid sentences *)
Theorem C15_nil_only_valid : forall lib, lib_contract lib -> forall (name : string) (l : Z) (s : list byte),
  supported name l -> CheckMnemonicL lib s l = Ret None -> valid_sentence sha256 name (ws_tokens (nfkd s)).
Proof. exact accepted_is_valid. Qed.

(* the four error values are pairwise distinct constructors; the sentinels are the generated ones *)
Example C15_distinct : Some ErrWordLen <> Some ErrChecksumIncorrect /\ (forall t i, Some (ErrUnknownWord t i) <> Some ErrWordLen)
  /\ (forall t i, Some (ErrUnknownWord t i) <> Some ErrChecksumIncorrect) /\ (forall t i, Some (ErrUnknownWord t i) <> None).
Proof. repeat split; intros; discriminate. Qed.

(* the functions this property is about, and every package function they reach, call only what the model
   accounts for (closed world of callees, computed on coq/Gen/Calls.v, regenerated from the source every run) *)
Theorem C15_callees : reach_ok "CheckMnemonic" = true /\ reach_ok "IsMnemonicValid" = true.
Proof. exact calls_validator. Qed.

Print Assumptions C15_classification.
Print Assumptions C15_count.
Print Assumptions C15_outside_xsafe.
Print Assumptions C15_nil_only_valid.
