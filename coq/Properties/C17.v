(* C17 - The word-list generator (update-wordlist) writes tables that contain exactly the
   non-empty lines of the file it fetched, in order, under the requested variable name. *)
From B39 Require Import Lib.Base Lib.Utf8 Lib.TableWF Model.GenTypes Model.Model Gen.Tool Model.ToolModel Spec.Bip39Spec Facts.CanonDigest Proofs.Tables Proofs.Tool Proofs.ToolCanon.

(* any input: any number of lines, blank lines anywhere, with or without a final newline;
   go_list_literal also requires the file to be valid UTF-8 without a byte order mark *)
Theorem C17_faithful : forall (var src : list byte),
  ident_ok var = true ->
  Forall (fun w => tool_line_ok w = true) (split_at (fun b => Byte.eqb b x0a) src) ->
  exists out, render var src = Some out /\
    go_list_literal out =
      Some (var, filter (fun w => negb (is_nil w)) (split_at (fun b => Byte.eqb b x0a) src)).
Proof. exact tool_faithful. Qed.

(* file name -> variable: exactly the ten expected pairs; target directory; template package *)
Theorem C17_langs :
  same_pairs tool_langs expected_langs = true /\
  length expected_langs = 10%nat /\
  tool_dir = "internal/wordlist"%string /\
  tool_template_pkg = "html/template"%string /\
  tool_shape_ok = true.
Proof. exact tool_langs_ok. Qed.

(* run on the ten canonical upstream files (the pinned tables written one word per line, whose SHA-256 digests are
   those of the upstream files: C08_upstream_digest) the generator reproduces, under the language's identifier,
   exactly the list the package uses for that language (list_of l, the committed table) *)
Theorem C17_canonical : forall (name : string) (l : Z), supported name l ->
  exists out, render (bytes_of_string name) (file_of (canon name)) = Some out /\
              go_list_literal out = Some (bytes_of_string name, list_of l).
Proof. exact tool_reproduces_lists. Qed.

(* each list is fetched as <url><file>.txt, split at LF, and written to internal/wordlist/<file>.go *)
Theorem C17_paths :
  tool_path_fmt = "%s/%s.go|dirName,path"%string /\ tool_url_fmt = "%s%s.txt|url,path"%string /\
  tool_dir = "internal/wordlist"%string /\ tool_split_sep = [x0a].
Proof. exact tool_paths_ok. Qed.

Print Assumptions C17_faithful.
Print Assumptions C17_canonical.
Print Assumptions C17_langs.
