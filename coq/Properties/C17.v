(* C17 - The word-list generator (update-wordlist) writes tables that contain exactly the
   non-empty lines of the file it fetched, in order, under the requested variable name. *)
From B39 Require Import Lib.Base Lib.Utf8 Lib.TableWF Model.GenTypes Gen.Tool Model.ToolModel Proofs.Tool.

(* any input: any number of lines, blank lines anywhere, with or without a final newline;
   go_list_literal also requires the file to be valid UTF-8 without a byte order mark *)
Theorem C17_faithful : forall (var src : list byte),
  ident_ok var = true ->
  Forall (fun w => tool_line_ok w = true) (split_at (fun b => Byte.eqb b x0a) src) ->
  exists out, render var src = Some out /\
    go_list_literal out =
      Some (var, filter (fun w => negb (is_nil w)) (split_at (fun b => Byte.eqb b x0a) src)).
Proof. exact tool_faithful. Qed.

(* file name -> variable: exactly the ten expected pairs; target directory; template package *)
Theorem C17_langs :
  same_pairs tool_langs expected_langs = true /\
  length expected_langs = 10%nat /\
  tool_dir = "internal/wordlist"%string /\
  tool_template_pkg = "html/template"%string /\
  tool_shape_ok = true.
Proof. exact tool_langs_ok. Qed.

Print Assumptions C17_faithful.
Print Assumptions C17_langs.
