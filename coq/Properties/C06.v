(* C06 - NewMnemonic is fail-closed and uses exactly the bytes its source delivers. *)
From B39 Require Import Proofs.Calls.
From B39 Require Import Lib.Base Lib.Sha256 Model.GenTypes Model.Model Spec.Bip39Spec.
From B39 Require Import Proofs.Gates Proofs.Tables Proofs.Reader Proofs.Api.

(* s ranges over every read script: any fragmentation, zero-length reads, any error kind at any
   point with or without bytes alongside; delivered s = the bytes up to and including the first
   response that carries an error.  With need = 4n/3:
     need <= |delivered s|  ->  the BIP39 encoding of the first need delivered bytes, n words, nil error
     otherwise              ->  the empty string and the (non-nil) error of io.ReadFull          *)
Theorem C06_newmnemonic : forall (n : Z) (name : string) (l : Z) (s : script),
  valid_wc_z n -> supported name l ->
  let need := Z.to_nat (n + n / 3) in
  if (need <=? length (delivered s))%nat
  then fst (NewMnemonic n l s) = Ret (bip39_encode sha256 name (firstn need (delivered s)), None)
       /\ length (bip39_indices sha256 (firstn need (delivered s))) = Z.to_nat n
  else exists e, fst (NewMnemonic n l s) = Ret ([], Some (ErrIO e)).
Proof. exact new_mnemonic_delivers. Qed.

(* io.ReadFull as transcribed, on its own *)
Theorem C06_read_full : forall (need : nat) (s : script), (0 < need)%nat ->
  if (need <=? length (delivered s))%nat
  then fst (read_full need s) = (firstn need (delivered s), None)
  else exists e, snd (fst (read_full need s)) = Some e.
Proof. exact read_full_spec. Qed.

(* "uses exactly the bytes its source delivers", seen from the source's side (conservation).  pending s = the data
   the source still holds, in order.  For an accepted count the bytes that left the source are a block buf of at most
   4n/3 bytes at the FRONT of what it held - nothing skipped, duplicated, reordered or read ahead - and when the
   source can deliver 4n/3 bytes that block is exactly the encoded entropy; a rejected count takes nothing.
   The harness observes this quantity (`used` = bytes taken from the scripted reader) on every N case. *)
Theorem C06_takes_exactly : forall (n l : Z) (s : script), valid_wc_z n ->
  let need := Z.to_nat (n + n / 3) in
  exists buf, (length buf <= need)%nat /\ pending s = buf ++ pending (snd (NewMnemonic n l s))
    /\ ((need <= length (delivered s))%nat -> buf = firstn need (delivered s)).
Proof. exact NewMnemonic_conserves. Qed.

Theorem C06_rejected_takes_nothing : forall (n l : Z) (s : script), ~ valid_wc_z n -> snd (NewMnemonic n l s) = s.
Proof. intros n l s H. rewrite (NewMnemonic_rejects n l s H). reflexivity. Qed.

(* io.ReadFull on its own: buffer returned ++ what the source holds afterwards = what it held before *)
Theorem C06_read_full_conserves : forall (need : nat) (s : script),
  pending s = fst (fst (read_full need s)) ++ pending (snd (read_full need s)).
Proof. exact read_full_conserves. Qed.

(* non-vacuity: after 12 words out of a 20-byte response the source still holds the last 4 bytes *)
Example C06_leftover :
  pending (snd (NewMnemonic 12 2 [(repeat x00 7, None); (repeat x01 13, None)])) = repeat x01 4.
Proof. vm_compute. reflexivity. Qed.

(* non-vacuity: a script that delivers 16 bytes in three fragments, one of them empty *)
Example C06_fragmented :
  fst (NewMnemonic 12 2 [(repeat x00 5, None); ([], None); (repeat x00 11, Some IoEOF)]) =
  Ret (bytes_of_string "abandon abandon abandon abandon abandon abandon abandon abandon abandon abandon abandon about", None).
Proof. vm_compute. reflexivity. Qed.
Example C06_short :
  fst (NewMnemonic 12 2 [(repeat x00 15, None); ([], Some IoEOF)]) = Ret ([], Some (ErrIO IoUnexpectedEOF)).
Proof. vm_compute. reflexivity. Qed.

(* the functions this property is about, and every package function they reach, call only what the model
   accounts for (closed world of callees, computed on coq/Gen/Calls.v, regenerated from the source every run) *)
Theorem C06_callees : reach_ok "NewMnemonicByEntropy" = true /\ reach_ok "NewMnemonic" = true /\ reach_ok "fromEntropy" = true.
Proof. exact calls_generator. Qed.

Print Assumptions C06_newmnemonic.
Print Assumptions C06_read_full.
Print Assumptions C06_takes_exactly.
Print Assumptions C06_rejected_takes_nothing.
Print Assumptions C06_read_full_conserves.
