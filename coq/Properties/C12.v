(* C12 - Concurrent use from a cold start is race-free and equals sequential use. *)
From B39 Require Import Proofs.Calls.
From B39 Require Import Lib.Base Model.GenTypes Model.Model Model.State.
From B39 Require Import Proofs.Concurrency Proofs.ConcTable Proofs.History Proofs.Inventory.

(* calls: any assignment of call lists to any number of threads (exported calls with any arguments);
   tr: any interleaving the scheduler can produce from a cold start (no once begun, every map nil),
   under the Go memory model's contract for sync.Once.  Any two accesses to the same package-level
   variable by different threads, one of them a write, are ordered by
       write  <  EFin o (writer's thread)  <  EPass o (reader's thread)  <  read
   i.e. program order ; once completion happens-before once return ; program order.  Write/write pairs
   by two threads and read-before-write pairs are impossible. *)
Theorem C12_race_free : forall lib (calls : nat -> list op) tr s, reach (init (prog_of lib calls)) tr s ->
  forall i j t1 t2 e1 e2, i < j -> at_ tr i (t1, e1) -> at_ tr j (t2, e2) -> t1 <> t2 -> conflict e1 e2 ->
  exists o f p, i < f /\ f < p /\ p < j /\ at_ tr f (t1, EFin o) /\ at_ tr p (t2, EPass o).
Proof. exact api_race_free. Qed.

(* ... and every lookup finds the completely built map of its own language, exactly as when run alone;
   what a call returns is a function of that map and its arguments (C13_history_free), so every call
   returns what it returns when run alone *)
Theorem C12_reads_own_map : forall lib (calls : nat -> list op) tr s t c r, reach (init (prog_of lib calls)) tr s ->
  th s t = {| ph := Reading; todo := c :: r |} -> vars s (cr c) = Some c.
Proof. exact api_reads_own_map. Qed.

(* the facts about the current source these rest on (computed on the generated tables): one once and one
   map variable per case, the closure writes only that variable, it is the variable returned; and no other
   package-level variable is ever written (closed-world inventory), so all other shared data is read-only *)
Theorem C12_source_facts : conc_table_wf = true /\ mapping_table_wf = true /\ inventory_ok = true.
Proof. split; [exact conc_table_wf_holds|split; [exact mapping_table_wf_holds|exact inventory_ok_holds]]. Qed.

(* the functions this property is about, and every package function they reach, call only what the model
   accounts for (closed world of callees, computed on coq/Gen/Calls.v, regenerated from the source every run) *)
Theorem C12_callees : all_calls_ok = true.
Proof. exact all_calls_ok_holds. Qed.

(* the exported functions and methods of the package are exactly the six modelled entry points; Language is int *)
Theorem C12_public_surface : exported_api_ok = true.
Proof. exact exported_api_ok_holds. Qed.

Print Assumptions C12_race_free.
Print Assumptions C12_reads_own_map.
Print Assumptions C12_source_facts.
