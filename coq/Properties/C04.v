(* C04 - Seed derivation equals BIP39 PBKDF2-HMAC-SHA512 for every input. *)
From B39 Require Import Proofs.Calls.
From B39 Require Import Lib.Base Lib.Utf8 Lib.Nfkd Lib.Sha512 Lib.Pbkdf2 Model.GenTypes Model.Model Model.State Spec.Bip39Spec.
From B39 Require Import Proofs.LibContract Proofs.Seed Proofs.History Facts.SeedVector.

(* bip39_seed m p = pbkdf2_hmac_sha512 (nfkd m) ("mnemonic" ++ nfkd p) 2048 64  (Spec/Bip39Spec.v).
   For every normaliser meeting the measured contract of norm.NFKD.String and ALL valid UTF-8 strings m, p
   (empty; beyond the 128-byte HMAC block; passphrases beginning with combining marks) whose NFKD forms
   have no run of more than 30 modifiers (NFKD is defined on code point sequences; on byte strings that are
   not UTF-8 the library's behaviour is not part of its contract and the property does not speak of them): *)
Theorem C04_seed : forall lib, lib_contract lib -> forall (m p : list byte),
  utf8_valid m = true -> utf8_valid p = true ->
  xsafe m = true -> xsafe p = true -> MnemonicToSeed lib m p = bip39_seed m p.
Proof. exact seed_spec. Qed.

(* the salt: NFKD("mnemonic" + p) = "mnemonic" ++ NFKD(p), also when p starts with combining marks *)
Theorem C04_salt_prefix : forall p : list byte, nfkd (mnemonic_salt ++ p) = mnemonic_salt ++ nfkd p.
Proof. exact nfkd_prefix. Qed.

(* 64 bytes, for every input; the mnemonic is never validated: the definition consults no table, no
   language and no package state (MnemonicToSeed has no such argument, and in the state machine the
   call leaves the state untouched and is history-free: C13) *)
Theorem C04_length : forall lib (m p : list byte), length (MnemonicToSeed lib m p) = 64%nat.
Proof. exact seed_length_64. Qed.
Theorem C04_no_state : forall lib s (m p : list byte),
  api_step lib s (OpSeed m p) = (s, RSeed (MnemonicToSeed lib m p)).
Proof. reflexivity. Qed.

(* Outside the xsafe domain the statement is FALSE of the real library (known finding F3, replayed on the
   implementation by every run of the check); the witness is outside the domain, the boundary case inside: *)
Example C04_f3_witness_outside : xsafe f3_passphrase = false. Proof. exact f3_witness_not_xsafe. Qed.
Example C04_boundary_inside : xsafe (x61 :: concat (repeat [xcc; x81] 30)) = true. Proof. exact f3_boundary_is_xsafe. Qed.

(* the functions this property is about, and every package function they reach, call only what the model
   accounts for (closed world of callees, computed on coq/Gen/Calls.v, regenerated from the source every run) *)
Theorem C04_callees : reach_ok "MnemonicToSeed" = true.
Proof. exact calls_seed. Qed.

(* the specification's seed function on the public test vector (abandon x11 about / TREZOR), evaluated by the kernel *)
Example C04_trezor_vector :
  hex_of_bytes (bip39_seed abandon_about trezor) =
  0xc55257c360c07c72029aebc1b53c05ed0362ada38ead3e3e9efa3708e53495531f09a6987599d18264c1e1c92f2cf141630c7a3c4ab7c81b2f001698e7463b04%N.
Proof. exact seed_vector_trezor. Qed.

Print Assumptions C04_seed.
Print Assumptions C04_salt_prefix.
Print Assumptions C04_length.
