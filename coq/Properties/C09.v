(* C09 - Only the five BIP39 sizes are accepted; other sizes give the sentinel errors. *)
From B39 Require Import Proofs.Calls.
From B39 Require Import Lib.Base Lib.Sha256 Lib.TableWF Model.GenTypes Model.Model Spec.Bip39Spec.
From Coq Require Import ZifyBool ZifyNat ZifyN.
From B39 Require Import Proofs.Gates Proofs.Tables Proofs.Encode Proofs.Roundtrip Proofs.Reader.

Ltac Zify.zify_post_hook ::= Z.to_euclidean_division_equations.

(* NewMnemonicByEntropy: every byte string, every Language value (supported or not) *)
Theorem C09_entropy_accept : forall (ent : list byte) (lg : Z), valid_ent (length ent) ->
  exists m, NewMnemonicByEntropy ent lg = Ret (m, None) /\ m <> [].
Proof.
  intros ent lg Hv. eexists. split; [apply NewMnemonicByEntropy_valid; exact Hv|].
  unfold encode_with. intros E.
  destruct (valid_ent_k _ Hv) as [k [Hlen Hk]]. destruct (indices_bits ent k Hlen Hk) as [_ [Hb Hn]].
  destruct (bip39_indices sha256 ent) as [|i is] eqn:Ei; [cbn in Hn; unfold valid_ent in Hv; cbn [In] in Hv; lia|].
  inversion Hb as [|? ? Hi _]; subst.
  pose proof (word_at_in _ (list_of_ok lg) i Hi) as Hin. pose proof (wok_nonempty _ (tok_words _ (list_of_ok lg) _ Hin)) as Hne.
  cbn [map] in E. destruct (map (word_at (list_of lg)) is); cbn [join] in E; [contradiction|].
  apply app_eq_nil in E as [E _]. contradiction.
Qed.

Theorem C09_entropy_reject : forall (ent : list byte) (lg : Z), ~ valid_ent (length ent) ->
  NewMnemonicByEntropy ent lg = Ret ([], Some ErrEntropyLen).
Proof. exact NewMnemonicByEntropy_invalid. Qed.

(* NewMnemonic: every int word count (all of Z), every Language value, every read script.
   A rejected count returns ErrWordLen and leaves the script untouched (no randomness consumed). *)
Theorem C09_words_reject : forall (n lg : Z) (s : script), ~ valid_wc_z n ->
  NewMnemonic n lg s = (Ret ([], Some ErrWordLen), s).
Proof. exact NewMnemonic_rejects. Qed.

(* an accepted count with a working source (enough bytes delivered) gives a mnemonic and nil error *)
Theorem C09_words_accept : forall (n lg : Z) (s : script), valid_wc_z n ->
  (Z.to_nat (n + n / 3) <= length (delivered s))%nat ->
  exists ent, length ent = Z.to_nat (n + n / 3) /\
    fst (NewMnemonic n lg s) = fst (NewMnemonicByEntropy ent lg, s) /\ valid_ent (length ent).
Proof.
  intros n lg s Hv Hd. pose proof (NewMnemonic_accepts n lg s Hv) as H. cbn zeta in H.
  apply Nat.leb_le in Hd. rewrite Hd in H. apply Nat.leb_le in Hd.
  exists (firstn (Z.to_nat (n + n / 3)) (delivered s)).
  assert (Hl : length (firstn (Z.to_nat (n + n / 3)) (delivered s)) = Z.to_nat (n + n / 3)) by (rewrite firstn_length; lia).
  assert (Hve : valid_ent (length (firstn (Z.to_nat (n + n / 3)) (delivered s)))).
  { rewrite Hl. apply valid_ent_nat. unfold valid_wc_z in Hv. unfold valid_ent_z. lia. }
  split; [exact Hl|]. split; [|exact Hve].
  rewrite H. cbn [fst]. rewrite (NewMnemonicByEntropy_valid _ lg Hve). reflexivity.
Qed.

(* the two generators agree on sizes: a word count n is accepted by NewMnemonic exactly when the 4n/3 bytes it
   asks its source for form an entropy NewMnemonicByEntropy accepts - for EVERY int n (no count outside the five
   makes NewMnemonic build a buffer the other generator would take, and none inside is refused) *)
Theorem C09_generators_agree : forall (n lg : Z) (s : script) (ent : list byte),
  Z.of_nat (length ent) = (n + n / 3)%Z ->
  (snd (NewMnemonic n lg s) = s /\ fst (NewMnemonic n lg s) = Ret ([], Some ErrWordLen) <-> ~ valid_wc_z n)
  /\ (valid_wc_z n <-> valid_ent (length ent))
  /\ (NewMnemonicByEntropy ent lg = Ret ([], Some ErrEntropyLen) <-> ~ valid_wc_z n).
Proof.
  intros n lg s ent Hlen.
  assert (Hiff : valid_wc_z n <-> valid_ent (length ent)).
  { split; intros H.
    - apply valid_ent_nat. unfold valid_wc_z in H. unfold valid_ent_z. lia.
    - unfold valid_ent in H. cbn [In] in H. unfold valid_wc_z. lia. }
  split; [|split; [exact Hiff|]].
  - split.
    + intros [_ E] Hv. pose proof (NewMnemonic_accepts n lg s Hv) as A. cbn zeta in A.
      destruct (Z.to_nat (n + n / 3) <=? length (delivered s))%nat.
      * rewrite E in A. discriminate A.
      * destruct A as [e A]. rewrite E in A. discriminate A.
    + intros Hn. rewrite (NewMnemonic_rejects n lg s Hn). split; reflexivity.
  - split.
    + intros E Hv. destruct (C09_entropy_accept ent lg (proj1 Hiff Hv)) as [m [M _]]. rewrite M in E. discriminate E.
    + intros Hn. apply NewMnemonicByEntropy_invalid. intros Hv. apply Hn. apply Hiff. exact Hv.
Qed.

(* non-vacuity: a count far outside the five whose derived sizes would wrap onto an accepted one in 64-bit
   arithmetic (3*2^59 + 12: n/3*32 = 2^64 + 128) is refused, and the source keeps its bytes *)
Example C09_wrapping_count_refused :
  NewMnemonic (3 * 2 ^ 59 + 12) 2 [(repeat x00 40, None)] = (Ret ([], Some ErrWordLen), [(repeat x00 40, None)]).
Proof. apply C09_words_reject. unfold valid_wc_z. lia. Qed.

(* the sizes: the gates read from the source accept exactly 16..32 step 4 and 12..24 step 3 *)
Theorem C09_gates : forall n : Z,
  (Gen.Gates.gate_entropy n = false <-> (n = 16 \/ n = 20 \/ n = 24 \/ n = 28 \/ n = 32)%Z) /\
  (Gen.Gates.gate_words n = false <-> (n = 12 \/ n = 15 \/ n = 18 \/ n = 21 \/ n = 24)%Z).
Proof. intros n. split; [apply gate_entropy_spec|apply gate_words_spec]. Qed.

Example C09_nonvacuous : valid_ent 16 /\ ~ valid_ent 36 /\ valid_wc_z 24 /\ ~ valid_wc_z 27.
Proof. unfold valid_ent, valid_wc_z. cbn [In]. lia. Qed.

(* the functions this property is about, and every package function they reach, call only what the model
   accounts for (closed world of callees, computed on coq/Gen/Calls.v, regenerated from the source every run) *)
Theorem C09_callees : reach_ok "NewMnemonicByEntropy" = true /\ reach_ok "NewMnemonic" = true /\ reach_ok "fromEntropy" = true.
Proof. exact calls_generator. Qed.

Print Assumptions C09_entropy_accept.
Print Assumptions C09_entropy_reject.
Print Assumptions C09_words_reject.
Print Assumptions C09_words_accept.
Print Assumptions C09_gates.
Print Assumptions C09_generators_agree.
