(* C10 - Validation is invariant under Unicode-equivalent spellings. *)
From B39 Require Import Proofs.Calls.
From B39 Require Import Lib.Base Lib.Sha256 Lib.Nfkd Model.GenTypes Model.Model Spec.Bip39Spec.
From B39 Require Import Lib.Utf8 Proofs.Tables Proofs.LibContract Proofs.Sound Proofs.Api Proofs.Idem Proofs.Canonical.

(* any two strings (valid UTF-8: the NFKD form of anything else is not defined by Unicode, and the contract of the
   library says nothing about it) with the same NFKD form, every Language value (supported or not) *)
Theorem C10_same_nfkd : forall lib, lib_contract lib -> forall (s1 s2 : list byte) (l : Z),
  utf8_valid s1 = true -> utf8_valid s2 = true ->
  nfkd s1 = nfkd s2 -> (CheckMnemonicL lib s1 l = Ret None <-> CheckMnemonicL lib s2 l = Ret None).
Proof. exact same_nfkd_same_verdict. Qed.

(* in particular every spelling (NFC, NFD, NFKC, full-width, U+3000 or other separators that NFKD
   maps to U+0020, ...) whose NFKD form is a valid sentence is accepted *)
Theorem C10_valid_spellings : forall lib, lib_contract lib -> forall (name : string) (l : Z) (idx : list N) (s : list byte),
  supported name l -> utf8_valid s = true ->
  valid_wc (length idx) -> Forall (fun i => (i < 2048)%N) idx -> checksum_okb sha256 idx = true ->
  nfkd s = join [x20] (map (word_at (canon name)) idx) ->
  CheckMnemonicL lib s l = Ret None.
Proof. exact valid_spelling_accepted. Qed.

(* the functions this property is about, and every package function they reach, call only what the model
   accounts for (closed world of callees, computed on coq/Gen/Calls.v, regenerated from the source every run) *)
Theorem C10_callees : reach_ok "CheckMnemonic" = true /\ reach_ok "IsMnemonicValid" = true.
Proof. exact calls_validator. Qed.

(* NFKD is idempotent on valid UTF-8 (UAX #15 over the pinned table: the table is closed under decomposition,
   canonical reordering is idempotent, UTF-8 encoding round-trips), so the NFKD form of a string is itself one of
   its spellings: a string is accepted iff its NFKD form is *)
Theorem C10_nfkd_idempotent : forall s : list byte, utf8_valid s = true -> nfkd (nfkd s) = nfkd s /\ utf8_valid (nfkd s) = true.
Proof. exact nfkd_idem. Qed.
Theorem C10_normalised_form : forall lib, lib_contract lib -> forall (s : list byte) (l : Z), utf8_valid s = true ->
  (CheckMnemonicL lib (nfkd s) l = Ret None <-> CheckMnemonicL lib s l = Ret None).
Proof. exact normalised_form_same_verdict. Qed.

Print Assumptions C10_same_nfkd.
Print Assumptions C10_nfkd_idempotent.
Print Assumptions C10_normalised_form.
Print Assumptions C10_valid_spellings.
