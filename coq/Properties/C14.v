(* C14 - No exported function panics or hangs, whatever the arguments. *)
From B39 Require Import Proofs.Calls.
From B39 Require Import Lib.Base Model.GenTypes Model.Model Model.State Gen.Body.
From B39 Require Import Proofs.Sound Proofs.Stringer Proofs.History Proofs.Total.

(* The model makes every partial operation of the Go code an explicit Panic outcome (table
   indexing, string slicing, big.Int.Quo by zero incl. the uint wrap of 1<<(8-cs), make with a
   negative length, assignment to a nil map, slice bounds of the padding copy).  For ANY normaliser,
   ANY finite history and ANY arguments (all byte strings, all of Z for Language values and word
   counts, all read scripts) no result is a Panic.  Termination is Coq's (the model is a total
   function); the Go loops are for-loops over the same bounded counts. *)
Theorem C14_never_panics : forall (lib : list byte -> list byte) (ops : list op),
  Forall no_panic (run lib init_state ops).
Proof. exact never_panics. Qed.

Theorem C14_entropy : forall ent l, exists r, NewMnemonicByEntropy ent l = Ret r.
Proof. exact entropy_total. Qed.
Theorem C14_new : forall n l s, exists r, fst (NewMnemonic n l s) = Ret r.
Proof. exact new_total. Qed.
Theorem C14_check : forall lib s l, exists r, CheckMnemonicL lib s l = Ret r.
Proof. exact check_total. Qed.
Theorem C14_valid : forall lib s l, exists b, IsMnemonicValidL lib s l = Ret b.
Proof. exact valid_total. Qed.
Theorem C14_string : forall i : Z, exists r, String_ i = Ret r.
Proof. exact string_total. Qed.
Theorem C14_seed : forall lib m p, length (MnemonicToSeed lib m p) = N.to_nat seed_keylen.
Proof. exact seed_length. Qed.

(* the model does have reachable-looking panic sites: they are excluded by the gates, not by totalising *)
Example C14_panic_site_exists : fromEntropy (repeat x00 36) 27 2 = Panic "division by zero".
Proof. vm_compute. reflexivity. Qed.

(* the functions this property is about, and every package function they reach, call only what the model
   accounts for (closed world of callees, computed on coq/Gen/Calls.v, regenerated from the source every run) *)
Theorem C14_callees : all_calls_ok = true.
Proof. exact all_calls_ok_holds. Qed.

(* the exported functions and methods of the package are exactly the six modelled entry points; Language is int *)
Theorem C14_public_surface : exported_api_ok = true.
Proof. exact exported_api_ok_holds. Qed.

Print Assumptions C14_never_panics.
Print Assumptions C14_seed.
