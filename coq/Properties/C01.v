(* C01 - Mnemonic encoding conforms to BIP39 for every entropy and language. *)
From B39 Require Import Proofs.Calls.
From B39 Require Import Lib.Base Lib.Sha256 Lib.TableWF Model.GenTypes Model.Model Spec.Bip39Spec.
From B39 Require Import Proofs.Tables Proofs.Encode Proofs.Roundtrip Proofs.Examples.

(* every entropy of 16..32 bytes (step 4), each of the ten declared languages:
   the returned string is the specification's sentence over the CANONICAL list,
   the error is nil, and no panic is reachable *)
Theorem C01_encode : forall (ent : list byte) (name : string) (lg : Z),
  valid_ent (length ent) -> supported name lg ->
  NewMnemonicByEntropy ent lg = Ret (bip39_encode sha256 name ent, None).
Proof. exact encode_conforms. Qed.

(* 3*len/4 non-empty canonical words, none containing the separator, joined by single
   separators (U+3000 for Japanese, U+0020 otherwise): no leading/trailing/doubled separator *)
Theorem C01_shape : forall (name : string) (lg : Z) (ent : list byte),
  supported name lg -> valid_ent (length ent) ->
  exists ws, bip39_encode sha256 name ent = join (separator name) ws /\ length ws = (length ent / 4 * 3)%nat /\
    Forall (fun w => In w (canon name) /\ w <> [] /\ has_sub (separator name) w = false) ws.
Proof. exact sentence_shape. Qed.

(* the hypotheses are satisfiable: English (value 2) and the all-zero entropy *)
Example C01_nonvacuous : supported "English" 2 /\ valid_ent (length (repeat x00 16)).
Proof. split; [unfold supported; cbn; tauto|cbn; tauto]. Qed.

(* the functions this property is about, and every package function they reach, call only what the model
   accounts for (closed world of callees, computed on coq/Gen/Calls.v, regenerated from the source every run) *)
Theorem C01_callees : reach_ok "NewMnemonicByEntropy" = true /\ reach_ok "NewMnemonic" = true /\ reach_ok "fromEntropy" = true.
Proof. exact calls_generator. Qed.

Print Assumptions C01_encode.
Print Assumptions C01_shape.
