(* C16 - Each supported language has its own printable name. *)
From B39 Require Import Proofs.Calls.
From B39 Require Import Lib.Base Model.GenTypes Model.Model Gen.Lang Proofs.Tables Proofs.Stringer.

(* every integer: the declared identifier of the constant with that value, else "Language(N)";
   in particular no panic (index out of range) for any value *)
Theorem C16_names : forall i : Z,
  String_ i = Ret (match declared_name i with
                   | Some s => bytes_of_string s
                   | None => bytes_of_string "Language(" ++ itoa i ++ bytes_of_string ")"
                   end).
Proof. exact String_correct. Qed.

Theorem C16_supported : forall name l, supported name l -> String_ l = Ret (bytes_of_string name).
Proof. intros name l H. rewrite String_correct. unfold String_spec. rewrite (declared_name_supported name l H). reflexivity. Qed.

Theorem C16_other : forall l, (forall name, ~ supported name l) ->
  String_ l = Ret (bytes_of_string "Language(" ++ itoa l ++ bytes_of_string ")").
Proof. intros l H. rewrite String_correct. unfold String_spec. rewrite (declared_name_unsupported l H). reflexivity. Qed.

(* ten constants; names non-empty and pairwise distinct (also as printed bytes) *)
Theorem C16_ten_distinct :
  length lang_consts = 10%nat /\ NoDup (map fst lang_consts) /\ NoDup (map snd lang_consts) /\
  Forall (fun c => fst c <> ""%string) lang_consts /\ NoDup (map (fun c => bytes_of_string (fst c)) lang_consts).
Proof.
  destruct lang_consts_facts as [A [B C]]. destruct names_nonempty_distinct as [D E]. repeat split; assumption.
Qed.

Example C16_portuguese : String_ 9 = Ret (bytes_of_string "Portuguese"). Proof. vm_compute. reflexivity. Qed.
Example C16_negative : String_ (-1) = Ret (bytes_of_string "Language(-1)"). Proof. vm_compute. reflexivity. Qed.

(* the functions this property is about, and every package function they reach, call only what the model
   accounts for (closed world of callees, computed on coq/Gen/Calls.v, regenerated from the source every run) *)
Theorem C16_callees : reach_ok "Language.String" = true /\ reach_ok "Language.list" = true /\ reach_ok "Language.mapping" = true.
Proof. exact calls_lang. Qed.

(* the exported functions and methods of the package are exactly the six modelled entry points; Language is int *)
Theorem C16_public_surface : exported_api_ok = true.
Proof. exact exported_api_ok_holds. Qed.

Print Assumptions C16_names.
Print Assumptions C16_supported.
Print Assumptions C16_other.
Print Assumptions C16_ten_distinct.
