(* C13 - Results depend only on the arguments: no history dependence, no mutation. *)
From B39 Require Import Proofs.Calls.
From B39 Require Import Lib.Base Model.GenTypes Model.Model Model.State Proofs.History Proofs.Inventory.

(* ops ranges over every finite sequence of the six entry points with any arguments (any Language
   value, any byte strings, failing calls, NewMnemonic with its own read script); lib is ANY
   normaliser.  Starting from a fresh process, the i-th result is what the i-th call returns when
   run alone (pure): which calls, languages, failures or unsupported values came earlier is irrelevant. *)
Theorem C13_history_free : forall (lib : list byte -> list byte) (ops : list op),
  run lib init_state ops = map (pure lib) ops.
Proof. exact history_free. Qed.

(* the same from every state the package can reach, not only the fresh one *)
Theorem C13_any_reachable_state : forall lib (before ops : list op),
  exists s, Inv s /\ run lib init_state (before ++ ops) = map (pure lib) before ++ run lib s ops /\
            run lib s ops = map (pure lib) ops.
Proof.
  intros lib before ops.
  assert (G : forall b s0, Inv s0 -> exists s, Inv s /\ run lib s0 (b ++ ops) = map (pure lib) b ++ run lib s ops).
  { induction b as [|o b IH]; intros s0 H0; [exists s0; split; [exact H0|reflexivity]|].
    cbn [app run map]. destruct (api_step_pure lib s0 o H0) as [H1 Hr]. destruct (api_step lib s0 o) as [s1 r]. cbn [fst snd] in *.
    destruct (IH s1 H1) as [s [Hs E]]. exists s. split; [exact Hs|]. rewrite Hr, E. reflexivity. }
  destruct (G before init_state Inv_init) as [s [Hs E]]. exists s. split; [exact Hs|]. split; [exact E|apply run_pure; exact Hs].
Qed.

(* the facts about the current source the theorem rests on, computed on the generated tables:
   each case of mapping() makes, fills and returns ONE map variable under its OWN sync.Once, keyed by the
   word and valued by the index; and the package-level variables are a closed world in which only those
   maps are ever written, only inside their once.Do closure (no cache, no shared buffer) *)
Theorem C13_source_facts : mapping_table_wf = true /\ inventory_ok = true.
Proof. split; [exact mapping_table_wf_holds|exact inventory_ok_holds]. Qed.

(* the functions this property is about, and every package function they reach, call only what the model
   accounts for (closed world of callees, computed on coq/Gen/Calls.v, regenerated from the source every run) *)
Theorem C13_callees : all_calls_ok = true.
Proof. exact all_calls_ok_holds. Qed.

(* the exported functions and methods of the package are exactly the six modelled entry points; Language is int *)
Theorem C13_public_surface : exported_api_ok = true.
Proof. exact exported_api_ok_holds. Qed.

Print Assumptions C13_history_free.
Print Assumptions C13_any_reachable_state.
Print Assumptions C13_source_facts.
