(* C08 - The ten wordlists are the canonical, well-formed BIP39 lists. *)
From B39 Require Import Proofs.Calls.
From B39 Require Import Lib.Base Lib.Sha256 Lib.Utf8 Lib.Nfkd Model.GenTypes Model.Model Gen.Lang.
From B39 Require Import Spec.Bip39Spec Spec.CanonDigests Facts.CanonDigest Proofs.Tables Proofs.Encode Proofs.Lists.

(* 10 languages x 2048 indices, a finite domain enumerated completely by computation on the tables
   read from the source (coq/Gen/WL_*.v, regenerated every run): the list selected by list() for each
   declared language is byte-for-byte the pinned canonical list, in order; 2048 pairwise distinct words,
   each non-empty, valid UTF-8, free of Unicode whitespace and unchanged by NFKD *)
Theorem C08_lists : forall (name : string) (l : Z), supported name l ->
  list_of l = canon name /\ length (list_of l) = 2048%nat /\ NoDup (list_of l) /\ Forall word_wellformed (list_of l).
Proof. exact lists_canonical. Qed.

(* observable through the API: the word emitted for index i is word i of that list (C01_encode), and
   validation maps each word back to the same index, and nothing else to any index *)
Theorem C08_inverse : forall (name : string) (l : Z) (i : N), supported name l -> (i < 2048)%N ->
  map_get (mapping_pure l) (word_at (list_of l) i) = Some i.
Proof. exact mapping_inverse. Qed.
Theorem C08_inverse_only : forall (name : string) (l : Z) (w : list byte) (i : N), supported name l ->
  map_get (mapping_pure l) w = Some i -> w = word_at (list_of l) i /\ (i < 2048)%N.
Proof. exact mapping_only_words. Qed.

(* the pinned canonical tables are the upstream bip-0039/*.txt files: their SHA-256 (recomputed in Coq)
   equals the pinned upstream digest, for all ten *)
Theorem C08_upstream_digest : forall (name : string) (d : N), In (name, d) canon_digests ->
  hex_of (sha256 (file_of (canon name))) = d.
Proof. exact canon_is_upstream. Qed.

Theorem C08_ten_languages : length lang_consts = 10%nat /\ length canon_digests = 10%nat /\
  forallb (fun c => existsb (fun t => String.eqb (fst t) (fst c)) canon_tables) lang_consts = true /\
  forallb (fun t => existsb (fun c => String.eqb (fst t) (fst c)) lang_consts) canon_tables = true.
Proof. split; [reflexivity|]. split; [reflexivity|]. exact languages_are_the_ten. Qed.

(* the functions this property is about, and every package function they reach, call only what the model
   accounts for (closed world of callees, computed on coq/Gen/Calls.v, regenerated from the source every run) *)
Theorem C08_callees : reach_ok "Language.String" = true /\ reach_ok "Language.list" = true /\ reach_ok "Language.mapping" = true.
Proof. exact calls_lang. Qed.

Print Assumptions C08_lists.
Print Assumptions C08_inverse.
Print Assumptions C08_inverse_only.
Print Assumptions C08_upstream_digest.
Print Assumptions C08_ten_languages.
