(* C02 - Every valid BIP39 mnemonic validates (generate -> check round trip). *)
From B39 Require Import Proofs.Calls.
From B39 Require Import Lib.Base Lib.Sha256 Lib.Nfkd Model.GenTypes Model.Model Spec.Bip39Spec.
From B39 Require Import Proofs.Gates Proofs.Tables Proofs.LibContract Proofs.Unicode Proofs.Sound Proofs.Reader Proofs.Api.

(* lib ranges over every function meeting the measured contract of norm.NFKD.String *)
Theorem C02_generated : forall lib, lib_contract lib -> forall (ent : list byte) (name : string) (l : Z),
  valid_ent (length ent) -> supported name l ->
  exists m, NewMnemonicByEntropy ent l = Ret (m, None) /\
            CheckMnemonicL lib m l = Ret None /\ IsMnemonicValidL lib m l = Ret true.
Proof. exact generated_validates. Qed.

Theorem C02_new_mnemonic : forall lib, lib_contract lib -> forall (n : Z) (name : string) (l : Z) (s : script),
  valid_wc_z n -> supported name l -> (Z.to_nat (n + n / 3) <= length (delivered s))%nat ->
  exists m, fst (NewMnemonic n l s) = Ret (m, None) /\ CheckMnemonicL lib m l = Ret None.
Proof. exact new_mnemonic_validates. Qed.

(* equivalently: every sentence of 12/15/18/21/24 list words with a correct checksum, joined by
   U+0020 or by U+3000, is accepted - whatever its entropy bits (leading zero bytes included) *)
Theorem C02_all_valid : forall lib, lib_contract lib -> forall (name : string) (l : Z) sep c (idx : list N),
  supported name l -> is_sep sep c -> valid_wc (length idx) -> Forall (fun i => (i < 2048)%N) idx ->
  checksum_okb sha256 idx = true ->
  CheckMnemonicL lib (join sep (map (word_at (canon name)) idx)) l = Ret None.
Proof. exact all_valid_accepted. Qed.

Example C02_contract_satisfiable : lib_contract lib_example. Proof. exact lib_example_contract. Qed.

(* the functions this property is about, and every package function they reach, call only what the model
   accounts for (closed world of callees, computed on coq/Gen/Calls.v, regenerated from the source every run) *)
Theorem C02_callees : reach_ok "CheckMnemonic" = true /\ reach_ok "IsMnemonicValid" = true.
Proof. exact calls_validator. Qed.

Print Assumptions C02_generated.
Print Assumptions C02_new_mnemonic.
Print Assumptions C02_all_valid.
