(* C05 - The mnemonic is a lossless encoding of the entropy. *)
From B39 Require Import Proofs.Calls.
From B39 Require Import Lib.Base Lib.Sha256 Lib.Utf8 Lib.TableWF Model.GenTypes Model.Model Spec.Bip39Spec.
From B39 Require Import Proofs.Gates Proofs.Tables Proofs.Encode Proofs.Unicode Proofs.Roundtrip Proofs.Reader Proofs.Api.
From Coq Require Import Lia.

Lemma sep_is_sep name : exists c, is_sep (separator name) c /\ is_space_cp c = true.
Proof.
  unfold separator. destruct (String.eqb name "Japanese").
  - exists 0x3000%N. split; [apply is_sep_u3000|reflexivity].
  - exists 0x20%N. split; [apply is_sep_space|reflexivity].
Qed.

(* the standard BIP39 decoding (split on Unicode whitespace, word -> index in the canonical
   list, concatenate 11-bit groups, drop the checksum bits) of what NewMnemonicByEntropy
   returns is the original entropy *)
Theorem C05_decode : forall (ent : list byte) (name : string) (lg : Z),
  valid_ent (length ent) -> supported name lg ->
  exists m, NewMnemonicByEntropy ent lg = Ret (m, None) /\ bip39_decode name m = Some ent.
Proof.
  intros ent name lg Hv Hs. exists (bip39_encode sha256 name ent). split; [apply encode_conforms; assumption|].
  destruct (sep_is_sep name) as [c [Hsep Hc]].
  pose proof (list_of_ok lg) as Hok. rewrite (list_of_canon name lg Hs) in Hok.
  exact (decode_encode (canon name) Hok (separator name) c ent Hsep Hc Hv).
Qed.

(* hence distinct entropies never share a mnemonic (no entropy bit is ignored) *)
Theorem C05_injective : forall (e1 e2 : list byte) (name : string) (lg : Z),
  valid_ent (length e1) -> valid_ent (length e2) -> supported name lg ->
  NewMnemonicByEntropy e1 lg = NewMnemonicByEntropy e2 lg -> e1 = e2.
Proof.
  intros e1 e2 name lg H1 H2 Hs E.
  destruct (C05_decode e1 name lg H1 Hs) as [m1 [M1 D1]]. destruct (C05_decode e2 name lg H2 Hs) as [m2 [M2 D2]].
  rewrite M1, M2 in E. injection E as E. subst m2. rewrite D1 in D2. injection D2 as D2. exact D2.
Qed.

(* the same through the random path: two sources whose first 4n/3 delivered bytes differ never produce the same
   mnemonic - NewMnemonic ignores no delivered bit either, whatever the fragmentation *)
Theorem C05_new_injective : forall (n : Z) (name : string) (l : Z) (s1 s2 : script),
  valid_wc_z n -> supported name l ->
  let need := Z.to_nat (n + n / 3) in
  (need <= length (delivered s1))%nat -> (need <= length (delivered s2))%nat ->
  fst (NewMnemonic n l s1) = fst (NewMnemonic n l s2) ->
  firstn need (delivered s1) = firstn need (delivered s2).
Proof.
  intros n name l s1 s2 Hn Hs need L1 L2 E.
  pose proof (new_mnemonic_delivers n name l s1 Hn Hs) as D1. pose proof (new_mnemonic_delivers n name l s2 Hn Hs) as D2.
  cbn zeta in D1, D2. fold need in D1, D2.
  rewrite (proj2 (Nat.leb_le _ _) L1) in D1. rewrite (proj2 (Nat.leb_le _ _) L2) in D2.
  destruct D1 as [D1 _]. destruct D2 as [D2 _]. rewrite D1, D2 in E.
  assert (V : forall s, (need <= length (delivered s))%nat -> valid_ent (length (firstn need (delivered s)))).
  { intros s L. rewrite firstn_length, Nat.min_l by exact L. unfold need, valid_wc_z, valid_ent in *.
    destruct Hn as [H|[H|[H|[H|H]]]]; rewrite H; cbn; auto 6. }
  apply (C05_injective _ _ name l (V s1 L1) (V s2 L2) Hs).
  rewrite (encode_conforms _ name l (V s1 L1) Hs), (encode_conforms _ name l (V s2 L2) Hs). exact E.
Qed.

(* the premises are met, and the conclusion bites: two 16-byte deliveries (one fragmented) that differ in one bit
   give different 12-word sentences *)
Example C05_new_injective_nonvacuous :
  valid_wc_z 12 /\ supported "English" 2 /\
  (Z.to_nat (12 + 12 / 3) <= length (delivered [(repeat x00 7, None); (repeat x00 9, None)]))%nat /\
  fst (NewMnemonic 12 2 [(repeat x00 7, None); (repeat x00 9, None)]) <>
  fst (NewMnemonic 12 2 [(repeat x00 15 ++ [x01], None)]).
Proof.
  split; [unfold valid_wc_z; lia|]. split; [unfold supported; cbn; tauto|]. split; [cbn; lia|].
  vm_compute. discriminate.
Qed.

(* the functions this property is about, and every package function they reach, call only what the model
   accounts for (closed world of callees, computed on coq/Gen/Calls.v, regenerated from the source every run) *)
Theorem C05_callees : reach_ok "NewMnemonicByEntropy" = true /\ reach_ok "NewMnemonic" = true /\ reach_ok "fromEntropy" = true.
Proof. exact calls_generator. Qed.

Print Assumptions C05_decode.
Print Assumptions C05_injective.
Print Assumptions C05_new_injective.
