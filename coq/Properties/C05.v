(* C05 - The mnemonic is a lossless encoding of the entropy. *)
From B39 Require Import Proofs.Calls.
From B39 Require Import Lib.Base Lib.Sha256 Lib.Utf8 Lib.TableWF Model.GenTypes Model.Model Spec.Bip39Spec.
From B39 Require Import Proofs.Tables Proofs.Encode Proofs.Unicode Proofs.Roundtrip.

Lemma sep_is_sep name : exists c, is_sep (separator name) c /\ is_space_cp c = true.
Proof.
  unfold separator. destruct (String.eqb name "Japanese").
  - exists 0x3000%N. split; [apply is_sep_u3000|reflexivity].
  - exists 0x20%N. split; [apply is_sep_space|reflexivity].
Qed.

(* the standard BIP39 decoding (split on Unicode whitespace, word -> index in the canonical
   list, concatenate 11-bit groups, drop the checksum bits) of what NewMnemonicByEntropy
   returns is the original entropy *)
Theorem C05_decode : forall (ent : list byte) (name : string) (lg : Z),
  valid_ent (length ent) -> supported name lg ->
  exists m, NewMnemonicByEntropy ent lg = Ret (m, None) /\ bip39_decode name m = Some ent.
Proof.
  intros ent name lg Hv Hs. exists (bip39_encode sha256 name ent). split; [apply encode_conforms; assumption|].
  destruct (sep_is_sep name) as [c [Hsep Hc]].
  pose proof (list_of_ok lg) as Hok. rewrite (list_of_canon name lg Hs) in Hok.
  exact (decode_encode (canon name) Hok (separator name) c ent Hsep Hc Hv).
Qed.

(* hence distinct entropies never share a mnemonic (no entropy bit is ignored) *)
Theorem C05_injective : forall (e1 e2 : list byte) (name : string) (lg : Z),
  valid_ent (length e1) -> valid_ent (length e2) -> supported name lg ->
  NewMnemonicByEntropy e1 lg = NewMnemonicByEntropy e2 lg -> e1 = e2.
Proof.
  intros e1 e2 name lg H1 H2 Hs E.
  destruct (C05_decode e1 name lg H1 Hs) as [m1 [M1 D1]]. destruct (C05_decode e2 name lg H2 Hs) as [m2 [M2 D2]].
  rewrite M1, M2 in E. injection E as E. subst m2. rewrite D1 in D2. injection D2 as D2. exact D2.
Qed.

(* the functions this property is about, and every package function they reach, call only what the model
   accounts for (closed world of callees, computed on coq/Gen/Calls.v, regenerated from the source every run) *)
Theorem C05_callees : reach_ok "NewMnemonicByEntropy" = true /\ reach_ok "NewMnemonic" = true /\ reach_ok "fromEntropy" = true.
Proof. exact calls_generator. Qed.

Print Assumptions C05_decode.
Print Assumptions C05_injective.
