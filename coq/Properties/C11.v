(* C11 - The seed is invariant under Unicode-equivalent spellings. *)
From B39 Require Import Proofs.Calls.
From B39 Require Import Lib.Base Lib.Nfkd Model.GenTypes Model.Model Spec.Bip39Spec.
From B39 Require Import Lib.Utf8 Proofs.LibContract Proofs.Seed Proofs.Api Proofs.Idem Proofs.Canonical.

(* any two (mnemonic, passphrase) pairs whose components have equal NFKD forms, inside the domain where
   the library's normaliser is UAX #15 NFKD (xsafe of the second pair follows) *)
Theorem C11_same_nfkd : forall lib, lib_contract lib -> forall (m1 p1 m2 p2 : list byte),
  utf8_valid m1 = true -> utf8_valid p1 = true -> utf8_valid m2 = true -> utf8_valid p2 = true ->
  nfkd m1 = nfkd m2 -> nfkd p1 = nfkd p2 -> xsafe m1 = true -> xsafe p1 = true ->
  MnemonicToSeed lib m1 p1 = MnemonicToSeed lib m2 p2.
Proof. exact seed_same_nfkd. Qed.

(* the premises are met by spellings of very different lengths: U+334D SQUARE MEETORU (3 bytes) and the four
   katakana it stands for (12 bytes) - NFKD may lengthen a string more than threefold, so equal seeds cannot be had
   from a normaliser writing into a buffer sized from the input *)
Example C11_nonvacuous_expansion :
  let p1 := [xe3; x8d; x8d] in
  let p2 := [xe3; x83; xa1; xe3; x83; xbc; xe3; x83; x88; xe3; x83; xab] in
  utf8_valid p1 = true /\ utf8_valid p2 = true /\ nfkd p1 = nfkd p2 /\ xsafe p1 = true /\ length (nfkd p1) = 12%nat.
Proof. vm_compute. split; [reflexivity|]. split; [reflexivity|]. split; [reflexivity|]. split; reflexivity. Qed.

(* in particular a sentence of list words joined by U+3000 and the same words joined by U+0020 *)
Theorem C11_separators : forall lib, lib_contract lib -> forall (tbl : list (list byte)) (idx : list N) (p : list byte),
  Lib.TableWF.table_ok tbl = true -> Forall (fun i => (i < 2048)%N) idx -> utf8_valid p = true -> xsafe p = true ->
  MnemonicToSeed lib (join Lib.TableWF.u3000 (map (word_at tbl) idx)) p =
  MnemonicToSeed lib (join [x20] (map (word_at tbl) idx)) p.
Proof. exact seed_separators. Qed.

(* the functions this property is about, and every package function they reach, call only what the model
   accounts for (closed world of callees, computed on coq/Gen/Calls.v, regenerated from the source every run) *)
Theorem C11_callees : reach_ok "MnemonicToSeed" = true.
Proof. exact calls_seed. Qed.

(* in particular the NFKD forms of the arguments give the same seed as the arguments (NFKD is idempotent) *)
Theorem C11_normalised_form : forall lib, lib_contract lib -> forall (m p : list byte),
  utf8_valid m = true -> utf8_valid p = true -> xsafe m = true -> xsafe p = true ->
  MnemonicToSeed lib (nfkd m) (nfkd p) = MnemonicToSeed lib m p.
Proof. exact normalised_form_same_seed. Qed.

Print Assumptions C11_same_nfkd.
Print Assumptions C11_normalised_form.
Print Assumptions C11_separators.
