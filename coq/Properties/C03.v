(* C03 - Validation never accepts an ill-formed or wrong-checksum mnemonic. *)
From B39 Require Import Proofs.Calls.
From B39 Require Import Lib.Base Lib.Utf8 Lib.Sha256 Lib.Nfkd Model.GenTypes Model.Model Spec.Bip39Spec.
From B39 Require Import Proofs.Tables Proofs.LibContract Proofs.Sound Proofs.Api Proofs.Count Proofs.Exact.

(* every string, each declared language, every normaliser meeting the library contract:
   nil  ->  the Unicode-whitespace tokens of the NFKD form are 12/15/18/21/24 words of the
            CANONICAL list whose trailing checksum bits equal the leading bits of SHA-256 of the
            ENT/8-byte entropy they encode *)
Theorem C03_sound : forall lib, lib_contract lib -> forall (name : string) (l : Z) (s : list byte),
  supported name l -> CheckMnemonicL lib s l = Ret None -> valid_sentence sha256 name (ws_tokens (nfkd s)).
Proof. exact accepted_is_valid. Qed.

(* IsMnemonicValid is true exactly when CheckMnemonic returns nil (every Language value) *)
Theorem C03_iff : forall lib (s : list byte) (l : Z) (b : bool),
  IsMnemonicValidL lib s l = Ret b -> (b = true <-> CheckMnemonicL lib s l = Ret None).
Proof. exact valid_iff_check. Qed.

(* a Language value that is not a declared constant has no map: nothing is accepted *)
Theorem C03_unsupported : forall lib (s : list byte) (l : Z),
  (forall name, ~ supported name l) -> CheckMnemonicL lib s l <> Ret None.
Proof. exact unsupported_rejects. Qed.

(* for any fixed first n-1 words exactly 2^(11 - n/3) of the 2048 final words are accepted *)
Theorem C03_count : forall lib, lib_contract lib -> forall (name : string) (l : Z) (n : nat) (prefix : list N),
  supported name l -> valid_wc n -> length prefix = (n - 1)%nat -> Forall (fun i => (i < 2048)%N) prefix ->
  length (filter (fun j => accepted_b (CheckMnemonicL lib (join [x20] (map (word_at (canon name)) (prefix ++ [N.of_nat j]))) l))
                 (seq 0 2048)) = (2 ^ (11 - n / 3))%nat.
Proof. exact last_word_count. Qed.

(* the accept set exactly (C02 and C03 together): a string is accepted iff it is valid UTF-8 and its NFKD form is
   the U+0020-joined BIP39 sentence (over the canonical list) of some entropy of 16/20/24/28/32 bytes *)
Theorem C03_exact : forall lib, lib_contract lib -> forall (name : string) (l : Z) (s : list byte), supported name l ->
  (CheckMnemonicL lib s l = Ret None <->
   utf8_valid s = true /\ exists ent, valid_ent (length ent) /\ nfkd s = plain_sentence name ent).
Proof. exact accepted_iff_encoding. Qed.

(* the functions this property is about, and every package function they reach, call only what the model
   accounts for (closed world of callees, computed on coq/Gen/Calls.v, regenerated from the source every run) *)
Theorem C03_callees : reach_ok "CheckMnemonic" = true /\ reach_ok "IsMnemonicValid" = true.
Proof. exact calls_validator. Qed.

Print Assumptions C03_sound.
Print Assumptions C03_exact.
Print Assumptions C03_iff.
Print Assumptions C03_unsupported.
Print Assumptions C03_count.
