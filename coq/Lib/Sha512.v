(* SHA-512 (FIPS 180-4) as an executable Gallina function.
   sha512N works on lists of byte values (N); sha512 is the list-byte wrapper.
   Same structure as Sha256.v, with 64-bit words, 80 rounds, 128-byte blocks
   and a 128-bit length field.  All names carry a 512/64 suffix so that this
   file can be imported next to Sha256.v without shadowing anything.

   Two deviations from the letter of FIPS 180-4, both for speed (the known-answer
   tests at the end exercise them; together they save about a quarter of the time):
   - sums of several words are formed in N and reduced mod 2^64 once (low64), instead of
     reducing after every single addition;
   - the big sigmas take their three rotations from one doubled word x || x
     (ROTR n x = low 64 bits of (x || x) >> n, and xor commutes with shifting and masking),
     see bsig0_512_fips / bsig1_512_fips for a cross-check against the textbook form. *)
From B39 Require Import Lib.Base.
Local Open Scope N_scope.

Definition mask64 := 18446744073709551615.   (* 2^64 - 1 *)
Definition low64 (x : N) := N.land x mask64.  (* x mod 2^64 *)
Definition add64 (a b : N) := low64 (a + b).
Definition rotr64 (n x : N) := N.lor (N.shiftr x n) (N.land (N.shiftl x (64 - n)) mask64).
Definition shr64 (n x : N) := N.shiftr x n.
Definition not64 (x : N) := N.lxor x mask64.

Definition K512 : list N := [
0x428a2f98d728ae22;0x7137449123ef65cd;0xb5c0fbcfec4d3b2f;0xe9b5dba58189dbbc;
0x3956c25bf348b538;0x59f111f1b605d019;0x923f82a4af194f9b;0xab1c5ed5da6d8118;
0xd807aa98a3030242;0x12835b0145706fbe;0x243185be4ee4b28c;0x550c7dc3d5ffb4e2;
0x72be5d74f27b896f;0x80deb1fe3b1696b1;0x9bdc06a725c71235;0xc19bf174cf692694;
0xe49b69c19ef14ad2;0xefbe4786384f25e3;0x0fc19dc68b8cd5b5;0x240ca1cc77ac9c65;
0x2de92c6f592b0275;0x4a7484aa6ea6e483;0x5cb0a9dcbd41fbd4;0x76f988da831153b5;
0x983e5152ee66dfab;0xa831c66d2db43210;0xb00327c898fb213f;0xbf597fc7beef0ee4;
0xc6e00bf33da88fc2;0xd5a79147930aa725;0x06ca6351e003826f;0x142929670a0e6e70;
0x27b70a8546d22ffc;0x2e1b21385c26c926;0x4d2c6dfc5ac42aed;0x53380d139d95b3df;
0x650a73548baf63de;0x766a0abb3c77b2a8;0x81c2c92e47edaee6;0x92722c851482353b;
0xa2bfe8a14cf10364;0xa81a664bbc423001;0xc24b8b70d0f89791;0xc76c51a30654be30;
0xd192e819d6ef5218;0xd69906245565a910;0xf40e35855771202a;0x106aa07032bbd1b8;
0x19a4c116b8d2d0c8;0x1e376c085141ab53;0x2748774cdf8eeb99;0x34b0bcb5e19b48a8;
0x391c0cb3c5c95a63;0x4ed8aa4ae3418acb;0x5b9cca4f7763e373;0x682e6ff3d6b2b8a3;
0x748f82ee5defb2fc;0x78a5636f43172f60;0x84c87814a1f0ab72;0x8cc702081a6439ec;
0x90befffa23631e28;0xa4506cebde82bde9;0xbef9a3f7b2c67915;0xc67178f2e372532b;
0xca273eceea26619c;0xd186b8c721c0c207;0xeada7dd6cde0eb1e;0xf57d4f7fee6ed178;
0x06f067aa72176fba;0x0a637dc5a2c898a6;0x113f9804bef90dae;0x1b710b35131c471b;
0x28db77f523047d84;0x32caab7b40c72493;0x3c9ebe0a15c9bebc;0x431d67c49c100d4c;
0x4cc5d4becb3e42b6;0x597f299cfc657e2a;0x5fcb6fab3ad6faec;0x6c44198c4a475817].

Definition H0_512 : list N :=
  [0x6a09e667f3bcc908;0xbb67ae8584caa73b;0x3c6ef372fe94f82b;0xa54ff53a5f1d36f1;
   0x510e527fade682d1;0x9b05688c2b3e6c1f;0x1f83d9abfb41bd6b;0x5be0cd19137e2179].

(* x || x as a 128-bit number (x < 2^64) *)
Definition dbl64 (x : N) := N.lor x (N.shiftl x 64).
(* ROTR28 ^ ROTR34 ^ ROTR39 *)
Definition bsig0_512 x :=
  let r28 := N.shiftr (dbl64 x) 28 in let r34 := N.shiftr r28 6 in let r39 := N.shiftr r34 5 in
  low64 (N.lxor (N.lxor r28 r34) r39).
(* ROTR14 ^ ROTR18 ^ ROTR41 *)
Definition bsig1_512 x :=
  let r14 := N.shiftr (dbl64 x) 14 in let r18 := N.shiftr r14 4 in let r41 := N.shiftr r18 23 in
  low64 (N.lxor (N.lxor r14 r18) r41).
Definition ssig0_512 x := N.lxor (N.lxor (rotr64 1 x) (rotr64 8 x)) (shr64 7 x).
Definition ssig1_512 x := N.lxor (N.lxor (rotr64 19 x) (rotr64 61 x)) (shr64 6 x).
Definition ch64 x y z := N.lxor (N.land x y) (N.land (not64 x) z).
Definition maj64 x y z := N.lxor (N.lxor (N.land x y) (N.land x z)) (N.land y z).

(* message schedule: keep last 16 words, newest first *)
Fixpoint sched512 (n : nat) (w : list N) (acc : list N) : list N :=
  match n with
  | O => rev acc
  | S n' =>
    match w with
    | w1 :: w2 :: _ =>
      let w2v := nth 1 w 0 in
      let w7 := nth 6 w 0 in
      let w15 := nth 14 w 0 in
      let w16 := nth 15 w 0 in
      let nw := low64 (ssig1_512 w2v + w7 + ssig0_512 w15 + w16) in
      sched512 n' (nw :: firstn 15 w) (nw :: acc)
    | _ => rev acc
    end
  end.

Definition round512 (st : N*N*N*N*N*N*N*N) (kw : N * N) :=
  let '(a,b,c,d,e,f,g,h) := st in
  let '(k,w) := kw in
  let t1 := h + bsig1_512 e + ch64 e f g + k + w in   (* not reduced; < 5 * 2^64 *)
  let t2 := bsig0_512 a + maj64 a b c in               (* not reduced *)
  (low64 (t1 + t2), a, b, c, low64 (d + t1), e, f, g).

Definition compress512 (h : list N) (blk : list N) : list N :=
  let ws := blk ++ sched512 64 (rev blk) [] in
  match h with
  | [a;b;c;d;e;f;g;hh] =>
    let '(a',b',c',d',e',f',g',h') := fold_left round512 (combine K512 ws) (a,b,c,d,e,f,g,hh) in
    [add64 a a'; add64 b b'; add64 c c'; add64 d d'; add64 e e'; add64 f f'; add64 g g'; add64 hh h']
  | _ => h
  end.

(* big-endian 64-bit word from 8 byte values (Horner, with shifts instead of multiplications) *)
Definition shl8_or (acc b : N) : N := N.lor (N.shiftl acc 8) b.

Fixpoint words_of_bytes512 (fuel : nat) (bs : list N) : list N :=
  match fuel with O => [] | S f =>
  match bs with
  | b0 :: b1 :: b2 :: b3 :: b4 :: b5 :: b6 :: b7 :: r =>
    shl8_or (shl8_or (shl8_or (shl8_or (shl8_or (shl8_or (shl8_or b0 b1) b2) b3) b4) b5) b6) b7
      :: words_of_bytes512 f r
  | _ => []
  end end.

Definition bytes_of_word512 (w : N) : list N :=
  [N.shiftr w 56; N.land (N.shiftr w 48) 255; N.land (N.shiftr w 40) 255; N.land (N.shiftr w 32) 255;
   N.land (N.shiftr w 24) 255; N.land (N.shiftr w 16) 255; N.land (N.shiftr w 8) 255; N.land w 255].

(* 128-bit big-endian length field *)
Definition be128 (n : N) : list N :=
  map (fun i => N.land (N.shiftr n (8 * i)) 255) [15;14;13;12;11;10;9;8;7;6;5;4;3;2;1;0].

Definition pad512 (msg : list N) : list N :=
  let l := N.of_nat (length msg) in
  let k := (128 - ((l + 17) mod 128)) mod 128 in
  msg ++ [128] ++ repeat 0 (N.to_nat k) ++ be128 (8 * l).

Fixpoint blocks512 (fuel : nat) (ws : list N) (h : list N) : list N :=
  match fuel with O => h | S f =>
  match ws with
  | [] => h
  | _ => blocks512 f (skipn 16 ws) (compress512 h (firstn 16 ws))
  end end.

Definition sha512N (msg : list N) : list N :=
  let p := pad512 msg in
  let ws := words_of_bytes512 (length p) p in
  flat_map bytes_of_word512 (blocks512 (length ws) ws H0_512).

Definition sha512 (m : list byte) : list byte := map byte_of_N (sha512N (map Byte.to_N m)).

Lemma compress512_length h blk : length h = 8%nat -> length (compress512 h blk) = 8%nat.
Proof.
  intros H. unfold compress512.
  do 9 (destruct h as [|? h]; try discriminate H).
  destruct (fold_left round512 _ _) as [[[[[[[a' b'] c'] d'] e'] f'] g'] h']. reflexivity.
Qed.

Lemma blocks512_length fuel : forall ws h, length h = 8%nat -> length (blocks512 fuel ws h) = 8%nat.
Proof.
  induction fuel as [|f IH]; intros ws h H; cbn [blocks512]; [exact H|].
  destruct ws; [exact H|]. apply IH. apply compress512_length. exact H.
Qed.

Lemma flat_map_const_length512 {A B} (f : A -> list B) k l :
  (forall x, length (f x) = k) -> length (flat_map f l) = (k * length l)%nat.
Proof.
  intros Hf. induction l as [|x l IH]; cbn [flat_map length]; [lia|].
  rewrite app_length, Hf, IH. lia.
Qed.

Lemma sha512N_length m : length (sha512N m) = 64%nat.
Proof.
  unfold sha512N.
  rewrite (flat_map_const_length512 bytes_of_word512 8) by reflexivity.
  rewrite blocks512_length by reflexivity. reflexivity.
Qed.

Lemma sha512_length m : length (sha512 m) = 64%nat.
Proof. unfold sha512. rewrite map_length. apply sha512N_length. Qed.

(* ---------- helpers for writing test vectors ---------- *)
(* big-endian value of a byte string; together with the length lemma this pins the string down *)
Definition hex_of_bytes (bs : list byte) : N := fold_left (fun acc b => acc * 256 + Byte.to_N b) bs 0.
(* the bytes of an ASCII string literal *)
Definition ascii_bytes (s : string) : list byte := list_byte_of_string s.

(* the doubled-word sigmas agree with the textbook form on sample words *)
Definition sigma_samples : list N := 0 :: 1 :: mask64 :: 0x8000000000000000 :: 0x0123456789abcdef :: K512.
Example bsig0_512_fips :
  forallb (fun x => N.eqb (bsig0_512 x) (N.lxor (N.lxor (rotr64 28 x) (rotr64 34 x)) (rotr64 39 x)))
          sigma_samples = true.
Proof. vm_compute. reflexivity. Qed.
Example bsig1_512_fips :
  forallb (fun x => N.eqb (bsig1_512 x) (N.lxor (N.lxor (rotr64 14 x) (rotr64 18 x)) (rotr64 41 x)))
          sigma_samples = true.
Proof. vm_compute. reflexivity. Qed.

(* NIST known answers (a test of the definition, not a proof of anything) *)
Example sha512_empty : hex_of_bytes (sha512 []) =
  0xcf83e1357eefb8bdf1542850d66d8007d620e4050b5715dc83f4a921d36ce9ce47d0d13c5d85f2b0ff8318d2877eec2f63b931bd47417a81a538327af927da3e.
Proof. vm_compute. reflexivity. Qed.
Example sha512_abc : hex_of_bytes (sha512 [x61; x62; x63]) =
  0xddaf35a193617abacc417349ae20413112e6fa4e89a97ea20a9eeee64b55d39a2192992a274fc1a836ba3c23a3feebbd454d4423643ce80e2a9ac94fa54ca49f.
Proof. vm_compute. reflexivity. Qed.
(* 112-byte message: the padding spills into a second block *)
Example sha512_nist112 :
  hex_of_bytes (sha512 (ascii_bytes
    "abcdefghbcdefghicdefghijdefghijkefghijklfghijklmghijklmnhijklmnoijklmnopjklmnopqklmnopqrlmnopqrsmnopqrstnopqrstu")) =
  0x8e959b75dae313da8cf4f72814fc143f8f7779c6eb9f7fa17299aeadb6889018501d289e4900f7e4331b99dec4b5433ac7d329eeb6dd26545e96e55b874be909.
Proof. vm_compute. reflexivity. Qed.

Print Assumptions sha512_length.
