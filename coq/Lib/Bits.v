(* MSB-first bit lists, their value, 11-bit chunks, and the correspondence with
   big-endian byte strings. *)
From B39 Require Import Lib.Base.
Local Open Scope N_scope.

(* MSB-first bit lists *)
Definition val (bs : list bool) : N := fold_left (fun a b => 2 * a + N.b2n b) bs 0.

Lemma fold_val_acc bs : forall a, fold_left (fun a b => 2 * a + N.b2n b) bs a = a * 2 ^ N.of_nat (length bs) + val bs.
Proof.
  unfold val. induction bs as [|b bs IH]; intros a; cbn [fold_left length].
  - rewrite N.pow_0_r. lia.
  - rewrite IH. rewrite (IH (2 * 0 + N.b2n b)). rewrite Nat2N.inj_succ, N.pow_succ_r'. lia.
Qed.

Lemma val_app a b : val (a ++ b) = val a * 2 ^ N.of_nat (length b) + val b.
Proof. unfold val at 1. rewrite fold_left_app. fold (val a). apply fold_val_acc. Qed.

Lemma val_bound bs : val bs < 2 ^ N.of_nat (length bs).
Proof.
  induction bs as [|b bs IH] using rev_ind.
  - cbn. lia.
  - rewrite val_app, app_length. cbn [length]. change (N.of_nat 1) with 1. rewrite N.pow_1_r.
    replace (N.of_nat (length bs + 1)) with (N.succ (N.of_nat (length bs))) by lia. rewrite N.pow_succ_r'.
    change (val [b]) with (2 * 0 + N.b2n b). destruct b; cbn [N.b2n]; lia.
Qed.

Fixpoint chunks {A} (k n : nat) (l : list A) : list (list A) :=
  match n with O => [] | S n' => firstn k l :: chunks k n' (skipn k l) end.

Lemma chunks_snoc {A} k n (l c : list A) :
  length l = (k * n)%nat -> chunks k (S n) (l ++ c) = chunks k n l ++ [firstn k c].
Proof.
  revert l. induction n as [|n IH]; intros l Hl.
  - rewrite Nat.mul_0_r in Hl. destruct l; [|discriminate]. reflexivity.
  - change (chunks k (S (S n)) (l ++ c)) with (firstn k (l ++ c) :: chunks k (S n) (skipn k (l ++ c))).
    change (chunks k (S n) l) with (firstn k l :: chunks k n (skipn k l)). assert (Hk : (k <= length l)%nat) by lia.
    rewrite firstn_app, skipn_app.
    replace (k - length l)%nat with 0%nat by lia. cbn [firstn skipn]. rewrite app_nil_r.
    cbn [app]. f_equal. apply IH. rewrite skipn_length. lia.
Qed.

Fixpoint peel (n : nat) (v : N) (acc : list N) : list N :=
  match n with O => acc | S k => peel k (v / 2048) (N.land v 2047 :: acc) end.

Lemma peel_spec n : forall B acc, length B = (11 * n)%nat -> peel n (val B) acc = map val (chunks 11 n B) ++ acc.
Proof.
  induction n as [|n IH]; intros B acc HB.
  - reflexivity.
  - pose (B1 := firstn (11 * n) B). pose (c := skipn (11 * n) B).
    assert (HB1 : length B1 = (11 * n)%nat) by (unfold B1; rewrite firstn_length; lia).
    assert (Hc : length c = 11%nat) by (unfold c; rewrite skipn_length; lia).
    assert (E : B = B1 ++ c) by (unfold B1, c; symmetry; apply firstn_skipn).
    rewrite E. rewrite chunks_snoc by exact HB1. rewrite firstn_all2 by lia.
    cbn [peel]. rewrite val_app, Hc.
    change (2 ^ N.of_nat 11) with 2048.
    pose proof (val_bound c) as Hb. rewrite Hc in Hb. change (2 ^ N.of_nat 11) with 2048 in Hb.
    change 2047 with (N.ones 11). rewrite N.land_ones. change (2 ^ 11) with 2048.
    replace ((val B1 * 2048 + val c) mod 2048) with (val c)
      by (rewrite N.add_comm, N.mod_add by lia; symmetry; apply N.mod_small; exact Hb).
    replace ((val B1 * 2048 + val c) / 2048) with (val B1)
      by (rewrite N.add_comm, N.div_add by lia; rewrite (N.div_small _ _ Hb); reflexivity).
    rewrite IH by exact HB1. rewrite map_app, <- app_assoc. reflexivity.
Qed.

(* ---------- spec side ---------- *)
Definition bits_of_N (w : nat) (n : N) : list bool :=
  map (fun i => N.testbit n (N.of_nat i)) (rev (seq 0 w)).
Definition bits_of_byte (b : byte) : list bool := bits_of_N 8 (Byte.to_N b).
Definition bits (bs : list byte) : list bool := flat_map bits_of_byte bs.


Definition be_to_N (bs : list byte) : N := fold_left (fun a b => a * 256 + Byte.to_N b) bs 0.

(* packing a bit list (length a multiple of 8) into bytes *)
Definition bytes_of_bits (bs : list bool) : list byte :=
  map (fun c => byte_of_N (val c)) (chunks 8 (length bs / 8) bs).


(* ---------- lemmas ---------- *)
Lemma bits_of_N_length w n : length (bits_of_N w n) = w.
Proof. unfold bits_of_N. rewrite map_length, rev_length, seq_length. reflexivity. Qed.

Lemma val_bits_of_N w : forall n, val (bits_of_N w n) = n mod 2 ^ N.of_nat w.
Proof.
  induction w as [|w IH]; intros n.
  - cbn. rewrite N.mod_1_r. reflexivity.
  - unfold bits_of_N. rewrite seq_S, rev_app_distr. cbn [rev app map Nat.add].
    change (val (N.testbit n (N.of_nat w) :: ?l)) with (val ([N.testbit n (N.of_nat w)] ++ l)).
    fold (bits_of_N w n).
    change (N.testbit n (N.of_nat w) :: map (fun i : nat => N.testbit n (N.of_nat i)) (rev (seq 0 w)))
      with ([N.testbit n (N.of_nat w)] ++ bits_of_N w n).
    rewrite val_app, bits_of_N_length, IH.
    change (val [N.testbit n (N.of_nat w)]) with (2 * 0 + N.b2n (N.testbit n (N.of_nat w))).
    rewrite N.testbit_spec' .
    rewrite Nat2N.inj_succ, N.pow_succ_r'.
    set (p := 2 ^ N.of_nat w). assert (Hp : 0 < p) by (apply N.neq_0_lt_0, N.pow_nonzero; lia).
    rewrite (N.mul_comm 2 p).
    rewrite N.mod_mul_r by lia. lia.
Qed.

Lemma val_bits_of_byte b : val (bits_of_byte b) = Byte.to_N b.
Proof.
  unfold bits_of_byte. rewrite val_bits_of_N. apply N.mod_small.
  pose proof (Byte.to_N_bounded b). change (2 ^ N.of_nat 8) with 256. lia.
Qed.

Lemma bits_length bs : length (bits bs) = (8 * length bs)%nat.
Proof. induction bs as [|b bs IH]; cbn [bits flat_map length]; [reflexivity|].
  rewrite app_length. fold (bits bs). rewrite IH. unfold bits_of_byte. rewrite bits_of_N_length. lia. Qed.

Lemma be_to_N_acc bs : forall a, fold_left (fun a b => a * 256 + Byte.to_N b) bs a = a * 2 ^ N.of_nat (8 * length bs) + val (bits bs).
Proof.
  induction bs as [|b bs IH]; intros a.
  - cbn. lia.
  - cbn [fold_left bits flat_map]. fold (bits bs). rewrite IH, val_app, bits_length, val_bits_of_byte.
    cbn [length]. replace (N.of_nat (8 * S (length bs))) with (8 + N.of_nat (8 * length bs)) by lia.
    rewrite N.pow_add_r. change (2 ^ 8) with 256. lia.
Qed.

Lemma be_to_N_val bs : be_to_N bs = val (bits bs).
Proof. unfold be_to_N. rewrite be_to_N_acc. lia. Qed.

(* first cs bits of a byte = byte / 2^(8-cs) *)
Definition all_bytes : list byte := map (fun n => match Byte.of_N (N.of_nat n) with Some b => b | None => x00 end) (seq 0 256).
Lemma all_bytes_complete b : In b all_bytes.
Proof.
  unfold all_bytes. apply in_map_iff. exists (N.to_nat (Byte.to_N b)). split.
  - rewrite N2Nat.id, Byte.of_to_N. reflexivity.
  - apply in_seq. pose proof (Byte.to_N_bounded b). lia.
Qed.

Lemma firstn_byte_check :
  forallb (fun cs => forallb (fun b => val (firstn cs (bits_of_byte b)) =? Byte.to_N b / 2 ^ (8 - N.of_nat cs)) all_bytes) (seq 0 9) = true.
Proof. vm_compute. reflexivity. Qed.

Lemma val_firstn_byte cs b : (cs <= 8)%nat -> val (firstn cs (bits_of_byte b)) = Byte.to_N b / 2 ^ (8 - N.of_nat cs).
Proof.
  intros H. pose proof firstn_byte_check as C. rewrite forallb_forall in C.
  assert (Hin : In cs (seq 0 9)) by (apply in_seq; lia).
  specialize (C cs Hin). rewrite forallb_forall in C. specialize (C b (all_bytes_complete b)).
  apply N.eqb_eq in C. exact C.
Qed.

