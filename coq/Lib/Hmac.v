(* HMAC (RFC 2104) specialised to SHA-512: block size B = 128 bytes, output L = 64 bytes.
     HMAC(K, text) = H((K0 xor opad) || H((K0 xor ipad) || text))
   where K0 is K zero-padded to B bytes (after hashing K first if it is longer than B),
   ipad = 0x36 repeated B times and opad = 0x5c repeated B times. *)
From B39 Require Import Lib.Base Lib.Sha512.

Definition xor_byte (a b : byte) : byte := byte_of_N (N.lxor (Byte.to_N a) (Byte.to_N b)).

(* K0: the key brought to exactly one block *)
Definition hmac_key512 (key : list byte) : list byte :=
  let k := if (128 <? length key)%nat then sha512 key else key in
  k ++ repeat x00 (128 - length k).

Definition hmac_sha512 (key msg : list byte) : list byte :=
  let k0 := hmac_key512 key in
  sha512 (map (xor_byte x5c) k0 ++ sha512 (map (xor_byte x36) k0 ++ msg)).

Lemma hmac_sha512_length k m : length (hmac_sha512 k m) = 64%nat.
Proof. unfold hmac_sha512. apply sha512_length. Qed.

Lemma hmac_key512_length k : length (hmac_key512 k) = 128%nat.
Proof.
  unfold hmac_key512. destruct (128 <? length k)%nat eqn:E.
  - rewrite app_length, repeat_length, sha512_length. reflexivity.
  - apply Nat.ltb_ge in E. rewrite app_length, repeat_length. lia.
Qed.

(* RFC 4231 test cases (a test of the definition, not a proof of anything) *)
(* TC1: key = 0x0b x 20, data = "Hi There" *)
Example hmac_sha512_rfc4231_1 :
  hex_of_bytes (hmac_sha512 (repeat x0b 20) (ascii_bytes "Hi There")) =
  0x87aa7cdea5ef619d4ff0b4241a1d6cb02379f4e2ce4ec2787ad0b30545e17cdedaa833b7d6b8a702038b274eaea3f4e4be9d914eeb61f1702e696c203a126854%N.
Proof. vm_compute. reflexivity. Qed.
(* TC2: key = "Jefe", data = "what do ya want for nothing?" *)
Example hmac_sha512_rfc4231_2 :
  hex_of_bytes (hmac_sha512 (ascii_bytes "Jefe") (ascii_bytes "what do ya want for nothing?")) =
  0x164b7a7bfcf819e2e395fbe73b56e0a387bd64222e831fd610270cd7ea2505549758bf75c05a994a6d034f65f8f0e6fdcaeab1a34d4a6b4b636e070a38bce737%N.
Proof. vm_compute. reflexivity. Qed.
(* TC3: key = 0xaa x 20, data = 0xdd x 50 *)
Example hmac_sha512_rfc4231_3 :
  hex_of_bytes (hmac_sha512 (repeat xaa 20) (repeat xdd 50)) =
  0xfa73b0089d56a284efb0f0756c890be9b1b5dbdd8ee81a3655f83e33b2279d39bf3e848279a722c806b485a47e67c807b946a337bee8942674278859e13292fb%N.
Proof. vm_compute. reflexivity. Qed.
(* TC6: key = 0xaa x 131 (longer than a block, so it is hashed first) *)
Example hmac_sha512_rfc4231_6 :
  hex_of_bytes (hmac_sha512 (repeat xaa 131)
    (ascii_bytes "Test Using Larger Than Block-Size Key - Hash Key First")) =
  0x80b24263c7c1a3ebb71493c1dd7be8b49b46d1f41b4aeec1121b013783f8f3526b56d037e05f2598bd0fd2215d6a1e5295e64f73f63f0aec8b915a985d786598%N.
Proof. vm_compute. reflexivity. Qed.

Print Assumptions hmac_sha512_length.
Print Assumptions hmac_key512_length.
