(* Well-formedness of a word table, as a boolean that is computed on closed
   data (2048 entries; the bound is part of the predicate). *)
From Coq Require Import Sorting.Mergesort Sorting.Permutation Orders.
From B39 Require Import Lib.Base Lib.Utf8 Lib.Nfkd.

(* ---------- NoDup by sorting numeric keys (n log n instead of n^2) ---------- *)
Module NOrder <: TotalLeBool.
  Definition t := N.
  Definition leb := N.leb.
  Theorem leb_total : forall a b, leb a b = true \/ leb b a = true.
  Proof. intros a b. unfold leb. destruct (N.leb_spec a b); [left; reflexivity|right; apply N.leb_le; lia]. Qed.
End NOrder.
Module NSort := Sort NOrder.

Definition word_key (w : list byte) : N := fold_left (fun a b => (a * 256 + Byte.to_N b)%N) w 1%N.

Fixpoint strict_incr (l : list N) : bool :=
  match l with
  | x :: ((y :: _) as r) => (x <? y)%N && strict_incr r
  | _ => true
  end.

Lemma strict_incr_head x r : strict_incr (x :: r) = true -> Forall (fun z => (x < z)%N) r.
Proof.
  revert x. induction r as [|y r IH]; intros x H; [constructor|].
  cbn [strict_incr] in H. apply andb_prop in H as [Hxy Hr]. apply N.ltb_lt in Hxy.
  constructor; [exact Hxy|]. specialize (IH y Hr).
  eapply Forall_impl; [|exact IH]. cbn. intros z Hz. lia.
Qed.

Lemma strict_incr_NoDup l : strict_incr l = true -> NoDup l.
Proof.
  induction l as [|x r IH]; intros H; [constructor|].
  constructor.
  - intros Hin. pose proof (strict_incr_head x r H) as F. rewrite Forall_forall in F. specialize (F x Hin). lia.
  - apply IH. destruct r as [|y r']; [reflexivity|]. cbn [strict_incr] in H. apply andb_prop in H as [_ H]. exact H.
Qed.

Definition nodup_fast (t : list (list byte)) : bool := strict_incr (NSort.sort (map word_key t)).

Lemma nodup_fast_NoDup t : nodup_fast t = true -> NoDup t.
Proof.
  unfold nodup_fast. intros H. apply strict_incr_NoDup in H.
  apply (NoDup_map_inv word_key).
  eapply Permutation_NoDup; [|exact H]. apply Permutation_sym. apply NSort.Permuted_sort.
Qed.

Definition is_nil {A} (l : list A) : bool := match l with [] => true | _ => false end.

Fixpoint is_prefix (p l : list byte) : bool :=
  match p, l with
  | [], _ => true
  | x :: p', y :: l' => Byte.eqb x y && is_prefix p' l'
  | _ :: _, [] => false
  end.
Fixpoint has_sub (p l : list byte) : bool :=
  is_prefix p l || match l with [] => false | _ :: r => has_sub p r end.

Definition u3000 : list byte := [xe3; x80; x80].

Definition word_ok (w : list byte) : bool :=
  negb (is_nil w)
  && utf8_valid w
  && bytes_eqb (nfkd w) w
  && bytes_eqb (utf8_encode (utf8_decode w)) w
  && forallb (fun b => negb (Byte.eqb b x20)) w
  && negb (has_sub u3000 w)
  && negb (has_cgj w)
  && xsafe_cps (utf8_decode w)
  && forallb (fun c => negb (is_space_cp c)) (utf8_decode w).

Definition table_ok (t : list (list byte)) : bool :=
  (length t =? 2048)%nat && nodup_fast t && forallb word_ok t.
