(* Unicode NFKD (UAX #15) over the pinned table: full compatibility
   decomposition (Hangul arithmetically), then canonical reordering.
   Items are N-coded (Utf8.v): invalid bytes are starters without decomposition. *)
From Coq Require Import FMapPositive.
From B39 Require Import Lib.Base Lib.Utf8 Lib.NfkdTable.
Local Open Scope N_scope.

Definition tbl : PositiveMap.t (N * list N) :=
  Eval vm_compute in
    fold_left (fun m e => PositiveMap.add (N.succ_pos (fst e)) (snd e) m) nfkd_raw (PositiveMap.empty _).

Definition back_tbl : PositiveMap.t unit :=
  Eval vm_compute in
    fold_left (fun m c => PositiveMap.add (N.succ_pos c) tt m) combines_backward_raw (PositiveMap.empty _).

Definition ccc (c : N) : N :=
  match PositiveMap.find (N.succ_pos c) tbl with Some (k, _) => k | None => 0 end.

Definition is_hangul (c : N) : bool := (0xAC00 <=? c) && (c <=? 0xD7A3).

Definition decomp (c : N) : list N :=
  if is_hangul c then
    let s := c - 0xAC00 in
    let l := 0x1100 + s / 588 in
    let v := 0x1161 + (s mod 588) / 28 in
    let t := s mod 28 in
    if t =? 0 then [l; v] else [l; v; 0x11A7 + t]
  else match PositiveMap.find (N.succ_pos c) tbl with
       | Some (_, (_ :: _) as d) => d
       | _ => [c]
       end.

(* canonical ordering: stable sort of every maximal run of non-starters by ccc.
   insert_front c l puts c (which precedes all of l) before the first element it
   may not pass: a starter or an element of class >= its own. *)
Fixpoint insert_front (c : N) (l : list N) : list N :=
  match l with
  | x :: r => if (0 <? ccc x) && (ccc x <? ccc c) then x :: insert_front c r else c :: l
  | [] => [c]
  end.
Fixpoint reorder (l : list N) : list N :=
  match l with
  | [] => []
  | c :: r => if ccc c =? 0 then c :: reorder r else insert_front c (reorder r)
  end.

Definition nfkd_cps (l : list N) : list N := reorder (flat_map decomp l).

(* the normaliser on byte strings *)
Definition nfkd (bs : list byte) : list byte := utf8_encode (nfkd_cps (utf8_decode bs)).

(* ---------- the domain on which golang.org/x/text's stream-safe NFKD is UAX #15 NFKD ---------- *)
Definition is_modifier (c : N) : bool :=
  negb (ccc c =? 0) || match PositiveMap.find (N.succ_pos c) back_tbl with Some _ => true | None => false end.

(* no run of more than [limit] consecutive elements satisfying p; cur = length of the current run *)
Fixpoint run_ok (p : N -> bool) (limit cur : nat) (l : list N) : bool :=
  match l with
  | [] => true
  | x :: r => if p x then (S cur <=? limit)%nat && run_ok p limit (S cur) r else run_ok p limit 0 r
  end.

Definition max_modifiers : nat := 30.
Definition xsafe_cps (l : list N) : bool := run_ok is_modifier max_modifiers 0 l.
(* defined on the normalised form, so it depends on the NFKD form only *)
Definition xsafe (bs : list byte) : bool := xsafe_cps (utf8_decode (nfkd bs)).

(* U+034F COMBINING GRAPHEME JOINER = CD 8F, inserted by the stream-safe algorithm *)
Fixpoint has_cgj (l : list byte) : bool :=
  match l with
  | [] => false
  | b :: r => (Byte.eqb b xcd && match r with c :: _ => Byte.eqb c x8f | [] => false end) || has_cgj r
  end.

(* ---------- lemmas about reorder ---------- *)
Lemma insert_front_app_starter c a s b : ccc s = 0 ->
  insert_front c (a ++ s :: b) = insert_front c a ++ s :: b.
Proof.
  intros Hs. induction a as [|x a IH]; cbn [app insert_front].
  - rewrite Hs. cbn. reflexivity.
  - destruct ((0 <? ccc x) && (ccc x <? ccc c)); [rewrite IH|]; reflexivity.
Qed.

(* reordering never crosses a starter *)
Lemma reorder_app_starter a s b : ccc s = 0 ->
  reorder (a ++ s :: b) = reorder a ++ s :: reorder b.
Proof.
  intros Hs. induction a as [|c a IH]; cbn [app reorder].
  - rewrite Hs. cbn. reflexivity.
  - rewrite IH. destruct (ccc c =? 0); [reflexivity|]. apply insert_front_app_starter. exact Hs.
Qed.

(* a prefix of starters is untouched *)
Lemma reorder_starters_prefix p l : Forall (fun c => ccc c = 0) p -> reorder (p ++ l) = p ++ reorder l.
Proof.
  induction 1 as [|c p Hc _ IH]; cbn [app reorder]; [reflexivity|]. rewrite Hc, IH. reflexivity.
Qed.

(* the pattern of modifier positions is invariant under reordering *)
Lemma map_insert_front (P : N -> bool) (P_ns : forall c, ccc c <> 0 -> P c = true) c l :
  ccc c <> 0 -> map P (insert_front c l) = P c :: map P l.
Proof.
  intros Hc. induction l as [|x r IH]; cbn [insert_front map]; [reflexivity|].
  destruct (0 <? ccc x) eqn:E1; cbn [andb]; [|reflexivity].
  destruct (ccc x <? ccc c) eqn:E2; [|reflexivity].
  cbn [map]. rewrite IH. apply N.ltb_lt in E1. rewrite (P_ns x) by lia. rewrite (P_ns c Hc). reflexivity.
Qed.
Lemma map_reorder (P : N -> bool) (P_ns : forall c, ccc c <> 0 -> P c = true) l :
  map P (reorder l) = map P l.
Proof.
  induction l as [|c r IH]; cbn [reorder map]; [reflexivity|].
  destruct (N.eqb_spec (ccc c) 0) as [E|E]; cbn [map]; [rewrite IH; reflexivity|].
  rewrite map_insert_front by assumption. rewrite IH. reflexivity.
Qed.

(* ---------- lemmas about runs ---------- *)
Lemma run_ok_app_break p lim a x b : p x = false ->
  forall cur, run_ok p lim cur (a ++ x :: b) = run_ok p lim cur a && run_ok p lim 0 b.
Proof.
  intros Hx. induction a as [|y a IH]; intros cur; cbn [app run_ok].
  - rewrite Hx. reflexivity.
  - destruct (p y); [rewrite IH, andb_assoc|rewrite IH]; reflexivity.
Qed.

Lemma run_ok_prefix_clean p lim pre l : Forall (fun c => p c = false) pre ->
  forall cur, run_ok p lim cur (pre ++ l) = match pre with [] => run_ok p lim cur l | _ => run_ok p lim 0 l end.
Proof.
  induction 1 as [|c pre Hc Hpre IH]; intros cur; cbn [app run_ok]; [reflexivity|].
  rewrite Hc. rewrite IH. destruct pre; reflexivity.
Qed.

(* ---------- nfkd across a starter boundary ---------- *)
Lemma nfkd_cps_app_starter a s b :
  (exists r, decomp s = r /\ match r with h :: _ => ccc h = 0 | [] => False end) ->
  nfkd_cps (a ++ s :: b) = nfkd_cps a ++ nfkd_cps (s :: b).
Proof.
  intros [r [Hr Hh]]. unfold nfkd_cps. rewrite flat_map_app. cbn [flat_map]. rewrite Hr.
  destruct r as [|h t]; [contradiction|]. cbn [app].
  rewrite reorder_app_starter by exact Hh.
  cbn [reorder]. rewrite Hh. cbn. reflexivity.
Qed.
