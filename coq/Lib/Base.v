(* Base definitions shared by the specification and the model:
   outcomes (normal return / Go panic), byte strings, join / split. *)
From Coq Require Export String.
From Coq Require Export List NArith ZArith Lia Bool Arith Init.Byte.
Export ListNotations.

Set Implicit Arguments.

(* ---------- outcomes: a Go call either returns or panics ---------- *)
Inductive outcome (A : Type) : Type :=
| Ret (a : A)
| Panic (why : string).
Arguments Ret {A} a.
Arguments Panic {A} why.

Definition obind {A B} (x : outcome A) (f : A -> outcome B) : outcome B :=
  match x with Ret a => f a | Panic w => Panic w end.
Definition omap {A B} (f : A -> B) (x : outcome A) : outcome B :=
  match x with Ret a => Ret (f a) | Panic w => Panic w end.
Definition is_ret {A} (x : outcome A) : bool :=
  match x with Ret _ => true | Panic _ => false end.

(* ---------- byte strings ---------- *)
Definition bytes := list byte.

Fixpoint bytes_eqb (a b : list byte) : bool :=
  match a, b with
  | [], [] => true
  | x :: a', y :: b' => Byte.eqb x y && bytes_eqb a' b'
  | _, _ => false
  end.

Lemma byte_eqb_eq x y : Byte.eqb x y = true <-> x = y.
Proof. split; [apply Byte.byte_dec_bl | apply Byte.byte_dec_lb]. Qed.
Lemma byte_eqb_refl x : Byte.eqb x x = true.
Proof. apply Byte.byte_dec_lb. reflexivity. Qed.
Lemma byte_eqb_neq x y : Byte.eqb x y = false <-> x <> y.
Proof.
  split.
  - intros H E. subst. rewrite byte_eqb_refl in H. discriminate.
  - intros H. destruct (Byte.eqb x y) eqn:E; [|reflexivity]. apply Byte.byte_dec_bl in E. contradiction.
Qed.

Lemma bytes_eqb_eq a : forall b, bytes_eqb a b = true <-> a = b.
Proof.
  induction a as [|x a IH]; intros [|y b]; cbn [bytes_eqb]; split; intros H; try reflexivity; try discriminate.
  - apply andb_prop in H as [H1 H2]. apply Byte.byte_dec_bl in H1. apply IH in H2. subst. reflexivity.
  - inversion H; subst. rewrite byte_eqb_refl. cbn. apply IH. reflexivity.
Qed.
Lemma bytes_eqb_refl a : bytes_eqb a a = true.
Proof. apply bytes_eqb_eq. reflexivity. Qed.
Lemma bytes_eqb_neq a b : bytes_eqb a b = false <-> a <> b.
Proof.
  split.
  - intros H E. subst. rewrite bytes_eqb_refl in H. discriminate.
  - intros H. destruct (bytes_eqb a b) eqn:E; [|reflexivity]. apply bytes_eqb_eq in E. contradiction.
Qed.

Fixpoint table_eqb (a b : list (list byte)) : bool :=
  match a, b with
  | [], [] => true
  | x :: a', y :: b' => bytes_eqb x y && table_eqb a' b'
  | _, _ => false
  end.
Lemma table_eqb_eq a : forall b, table_eqb a b = true <-> a = b.
Proof.
  induction a as [|x a IH]; intros [|y b]; cbn [table_eqb]; split; intros H; try reflexivity; try discriminate.
  - apply andb_prop in H as [H1 H2]. apply bytes_eqb_eq in H1. apply IH in H2. subst. reflexivity.
  - inversion H; subst. rewrite bytes_eqb_refl. cbn. apply IH. reflexivity.
Qed.

(* ---------- join (strings.Join) ---------- *)
Fixpoint join {A} (sep : list A) (ws : list (list A)) : list A :=
  match ws with
  | [] => []
  | [w] => w
  | w :: rest => w ++ sep ++ join sep rest
  end.

Lemma join_cons {A} (sep : list A) w x rest :
  join sep (w :: x :: rest) = w ++ sep ++ join sep (x :: rest).
Proof. reflexivity. Qed.

(* ---------- split at single separator elements (strings.Split with a one-byte separator) ---------- *)
Definition cons_head {A} (b : A) (ts : list (list A)) : list (list A) :=
  match ts with t :: r => (b :: t) :: r | [] => [[b]] end.

Fixpoint split_at {A} (p : A -> bool) (s : list A) : list (list A) :=
  match s with
  | [] => [[]]
  | b :: r => if p b then [] :: split_at p r else cons_head b (split_at p r)
  end.

Lemma split_at_nonempty {A} (p : A -> bool) s : split_at p s <> [].
Proof. destruct s as [|b r]; cbn; [discriminate|]. destruct (p b); [discriminate|]. destruct (split_at p r); discriminate. Qed.

Lemma split_at_app_nosep {A} (p : A -> bool) w s :
  forallb (fun b => negb (p b)) w = true ->
  split_at p (w ++ s) = match split_at p s with t :: r => (w ++ t) :: r | [] => [w] end.
Proof.
  induction w as [|b w IH]; intros H; cbn [app].
  - destruct (split_at p s) eqn:E; [exfalso; exact (split_at_nonempty p s E)|reflexivity].
  - cbn [forallb] in H. apply andb_prop in H as [Hb Hw]. cbn [split_at].
    destruct (p b); [discriminate|]. rewrite IH by exact Hw.
    destruct (split_at p s); reflexivity.
Qed.

Lemma split_at_join {A} (p : A -> bool) (sep : A) (ws : list (list A)) :
  p sep = true -> ws <> [] ->
  Forall (fun w => forallb (fun b => negb (p b)) w = true) ws ->
  split_at p (join [sep] ws) = ws.
Proof.
  intros Hs Hne Hall. induction Hall as [|w rest Hw Hrest IH]; [contradiction|].
  destruct rest as [|x rest'].
  - cbn [join]. rewrite <- (app_nil_r w) at 1. rewrite split_at_app_nosep by exact Hw. cbn. rewrite app_nil_r. reflexivity.
  - rewrite join_cons. rewrite split_at_app_nosep by exact Hw.
    cbn [app split_at]. rewrite Hs. rewrite IH by discriminate. rewrite app_nil_r. reflexivity.
Qed.

(* every token of a split is free of separators *)
Lemma split_at_tokens_nosep {A} (p : A -> bool) s :
  Forall (fun w => forallb (fun b => negb (p b)) w = true) (split_at p s).
Proof.
  induction s as [|b r IH]; cbn [split_at].
  - constructor; [reflexivity|constructor].
  - destruct (p b) eqn:E.
    + constructor; [reflexivity|exact IH].
    + destruct (split_at p r) as [|t ts]; cbn [cons_head].
      * constructor; [cbn; rewrite E; reflexivity|constructor].
      * inversion IH; subst. constructor; [cbn; rewrite E; cbn; assumption|assumption].
Qed.

Lemma join_split_at {A} (p : A -> bool) (sep : A) s :
  (forall b, p b = true -> b = sep) -> join [sep] (split_at p s) = s.
Proof.
  intros Hp. induction s as [|b r IH]; [reflexivity|]. cbn [split_at].
  destruct (p b) eqn:E.
  - pose proof (split_at_nonempty p r) as Hne. destruct (split_at p r) as [|t ts] eqn:Er; [contradiction|].
    rewrite join_cons. cbn [app]. rewrite IH. rewrite (Hp b E). reflexivity.
  - destruct (split_at p r) as [|t ts] eqn:Er; [exfalso; exact (split_at_nonempty p r Er)|].
    cbn [cons_head]. destruct ts as [|t2 ts']; cbn [join] in *; rewrite <- IH; reflexivity.
Qed.

(* number of tokens = number of separators + 1 *)
Lemma split_at_length {A} (p : A -> bool) s :
  length (split_at p s) = S (length (filter p s)).
Proof.
  induction s as [|b r IH]; [reflexivity|]. cbn [split_at filter].
  destruct (p b); cbn [length]; [rewrite IH; reflexivity|].
  pose proof (split_at_nonempty p r) as Hne.
  destruct (split_at p r) as [|t ts]; [contradiction|]. cbn [cons_head length] in *. exact IH.
Qed.

(* ---------- index of the first occurrence ---------- *)
Fixpoint index_of (w : list byte) (tbl : list (list byte)) : option nat :=
  match tbl with
  | [] => None
  | x :: r => if bytes_eqb x w then Some 0%nat
              else match index_of w r with Some i => Some (S i) | None => None end
  end.

Lemma index_of_Some w tbl i : index_of w tbl = Some i -> nth_error tbl i = Some w.
Proof.
  revert i. induction tbl as [|x r IH]; intros i H; cbn [index_of] in H; [discriminate|].
  destruct (bytes_eqb x w) eqn:E.
  - inversion H; subst. apply bytes_eqb_eq in E. subst. reflexivity.
  - destruct (index_of w r) as [j|]; [|discriminate]. inversion H; subst. cbn. apply IH. reflexivity.
Qed.
Lemma index_of_None w tbl : index_of w tbl = None -> ~ In w tbl.
Proof.
  induction tbl as [|x r IH]; intros H; cbn [index_of] in H; [intros []|].
  destruct (bytes_eqb x w) eqn:E; [discriminate|].
  destruct (index_of w r) as [j|]; [discriminate|]. intros [E'|E']; [subst; rewrite bytes_eqb_refl in E; discriminate|].
  exact (IH eq_refl E').
Qed.
Lemma index_of_nth tbl : NoDup tbl -> forall i w, nth_error tbl i = Some w -> index_of w tbl = Some i.
Proof.
  induction 1 as [|x r Hx Hnd IH]; intros i w Hi; [destruct i; discriminate|].
  cbn [index_of]. destruct i as [|i]; cbn in Hi.
  - inversion Hi; subst. rewrite bytes_eqb_refl. reflexivity.
  - destruct (bytes_eqb x w) eqn:E.
    + apply bytes_eqb_eq in E. subst. exfalso. apply Hx. eapply nth_error_In. exact Hi.
    + rewrite (IH _ _ Hi). reflexivity.
Qed.

(* ---------- decidable NoDup by computation ---------- *)
Fixpoint memb (w : list byte) (l : list (list byte)) : bool :=
  match l with [] => false | x :: r => bytes_eqb x w || memb w r end.
Fixpoint nodupb (l : list (list byte)) : bool :=
  match l with [] => true | x :: r => negb (memb x r) && nodupb r end.
Lemma memb_In w l : memb w l = true <-> In w l.
Proof.
  induction l as [|x r IH]; cbn [memb In]; [split; [discriminate|intros []]|].
  rewrite orb_true_iff, IH, bytes_eqb_eq. reflexivity.
Qed.
Lemma nodupb_NoDup l : nodupb l = true -> NoDup l.
Proof.
  induction l as [|x r IH]; intros H; [constructor|]. cbn [nodupb] in H. apply andb_prop in H as [H1 H2].
  constructor; [|exact (IH H2)]. intros Hin. apply memb_In in Hin. rewrite Hin in H1. discriminate.
Qed.

(* ---------- misc ---------- *)
Lemma forallb_Forall {A} (p : A -> bool) l : forallb p l = true <-> Forall (fun x => p x = true) l.
Proof.
  induction l as [|x r IH]; cbn [forallb]; split; intros H; try constructor; try reflexivity.
  - apply andb_prop in H as [H1 H2]. exact H1.
  - apply andb_prop in H as [H1 H2]. apply IH. exact H2.
  - inversion H; subst. apply andb_true_intro. split; [assumption|apply IH; assumption].
Qed.

Definition byte_of_N (n : N) : byte :=
  match Byte.of_N (n mod 256) with Some b => b | None => x00 end.
Lemma to_N_byte_of_N n : Byte.to_N (byte_of_N n) = (n mod 256)%N.
Proof.
  unfold byte_of_N. destruct (Byte.of_N (n mod 256)) as [b|] eqn:E.
  - apply Byte.to_of_N. exact E.
  - exfalso. pose proof (Byte.of_N_None_iff (n mod 256)%N) as [H _]. specialize (H E).
    pose proof (N.mod_upper_bound n 256). lia.
Qed.
Lemma byte_of_to_N b : byte_of_N (Byte.to_N b) = b.
Proof.
  unfold byte_of_N. rewrite N.mod_small by (pose proof (Byte.to_N_bounded b); lia).
  rewrite Byte.of_to_N. reflexivity.
Qed.
