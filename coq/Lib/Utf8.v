(* UTF-8 decoding/encoding as Go (and x/text) see it.
   Decoding yields items: a code point, or an invalid byte (passed through
   unchanged by the encoder, which is how norm.NFKD.String treats invalid input
   bytes).  For the normaliser items are coded as N: a code point is itself, an
   invalid byte b is 0x110000 + b. *)
From B39 Require Import Lib.Base.
Local Open Scope N_scope.

Inductive item := Cp (c : N) | Bad (b : N).
Definition is_cp (i : item) : bool := match i with Cp _ => true | Bad _ => false end.

Definition cont (b : N) := (0x80 <=? b) && (b <=? 0xBF).

(* one decoding step: the item and how many bytes it consumed (always >= 1) *)
Definition decode1 (b0 : N) (r : list N) : item * nat :=
  if b0 <? 0x80 then (Cp b0, 1%nat) else
  if b0 <? 0xC2 then (Bad b0, 1%nat) else
  if b0 <? 0xE0 then
    match r with b1 :: _ => if cont b1 then (Cp ((b0 - 0xC0) * 64 + (b1 - 0x80)), 2%nat) else (Bad b0, 1%nat) | _ => (Bad b0, 1%nat) end
  else if b0 <? 0xF0 then
    match r with b1 :: b2 :: _ =>
      let lo := if b0 =? 0xE0 then 0xA0 else 0x80 in
      let hi := if b0 =? 0xED then 0x9F else 0xBF in
      if (lo <=? b1) && (b1 <=? hi) && cont b2 then (Cp ((b0 - 0xE0) * 4096 + (b1 - 0x80) * 64 + (b2 - 0x80)), 3%nat) else (Bad b0, 1%nat)
    | _ => (Bad b0, 1%nat) end
  else if b0 <? 0xF5 then
    match r with b1 :: b2 :: b3 :: _ =>
      let lo := if b0 =? 0xF0 then 0x90 else 0x80 in
      let hi := if b0 =? 0xF4 then 0x8F else 0xBF in
      if (lo <=? b1) && (b1 <=? hi) && cont b2 && cont b3 then (Cp ((b0 - 0xF0) * 262144 + (b1 - 0x80) * 4096 + (b2 - 0x80) * 64 + (b3 - 0x80)), 4%nat) else (Bad b0, 1%nat)
    | _ => (Bad b0, 1%nat) end
  else (Bad b0, 1%nat).

Fixpoint decode_f (fuel : nat) (bs : list N) : list item :=
  match fuel with O => [] | S f =>
  match bs with
  | [] => []
  | b0 :: r => let '(it, k) := decode1 b0 r in it :: decode_f f (skipn (k - 1) r)
  end end.
Definition decode (bs : list N) := decode_f (length bs) bs.

(* a successful step does not depend on what follows, and consumes within the list *)
Lemma decode1_app b0 r b it k : decode1 b0 r = (it, k) -> is_cp it = true ->
  decode1 b0 (r ++ b) = (it, k) /\ (k - 1 <= length r)%nat.
Proof.
  unfold decode1. intros H Hc. cbv zeta in H |- *.
  repeat match type of H with
  | context [if ?c then _ else _] => destruct c
  | context [match ?l with [] => _ | _ :: _ => _ end] => destruct l; cbn [app] in *
  end;
  injection H as <- <-; cbn [is_cp] in Hc; try discriminate; cbn [length]; (split; [reflexivity|lia]).
Qed.

Lemma decode1_pos b0 r : (1 <= snd (decode1 b0 r))%nat.
Proof. unfold decode1. repeat match goal with |- context[if ?c then _ else _] => destruct c | |- context[match ?l with _ => _ end] => destruct l end; cbn; lia. Qed.

(* fuel irrelevance above the length *)
Lemma decode_f_fuel : forall f bs, (length bs <= f)%nat -> decode_f f bs = decode bs.
Proof.
  unfold decode. induction f as [f IH] using lt_wf_ind. intros bs Hf.
  destruct bs as [|b0 r]; [destruct f; reflexivity|].
  destruct f as [|f]; [cbn in Hf; lia|]. cbn [length decode_f].
  destruct (decode1 b0 r) as [it k] eqn:E. f_equal.
  assert (Hl : (length (skipn (k - 1) r) <= length r)%nat) by (rewrite skipn_length; lia).
  cbn [length] in Hf.
  rewrite (IH f) by lia. rewrite (IH (length r)) by lia. reflexivity.
Qed.

Theorem decode_app a b : forallb is_cp (decode a) = true -> decode (a ++ b) = decode a ++ decode b.
Proof.
  remember (length a) as n eqn:Hn. revert a Hn. induction n as [n IH] using lt_wf_ind. intros a Hn Hv.
  destruct a as [|b0 r]; [reflexivity|].
  unfold decode in Hv |- *. cbn [app length decode_f] in Hv |- *.
  destruct (decode1 b0 r) as [it k] eqn:E. cbn [forallb] in Hv. apply andb_prop in Hv as [Hit Hrest].
  destruct (decode1_app b0 r b it k E Hit) as [E' Hk]. rewrite E'. cbn [app]. f_equal.
  rewrite skipn_app. replace (k - 1 - length r)%nat with 0%nat by lia. cbn [skipn].
  assert (Hl : (length (skipn (k - 1) r) <= length r)%nat) by (rewrite skipn_length; lia).
  rewrite decode_f_fuel by (rewrite !app_length; lia).
  rewrite decode_f_fuel in Hrest by lia.
  rewrite (decode_f_fuel (length r)) by lia.
  apply (IH (length (skipn (k - 1) r))); [cbn [length] in Hn; lia | reflexivity | exact Hrest].
Qed.

Definition bad_base : N := 0x110000.
Definition item_to_N (i : item) : N := match i with Cp c => c | Bad b => bad_base + b end.

Definition encode1 (c : N) : list N :=
  if c <? 0x80 then [c]
  else if c <? 0x800 then [0xC0 + c / 64; 0x80 + c mod 64]
  else if c <? 0x10000 then [0xE0 + c / 4096; 0x80 + (c / 64) mod 64; 0x80 + c mod 64]
  else if c <? bad_base then [0xF0 + c / 262144; 0x80 + (c / 4096) mod 64; 0x80 + (c / 64) mod 64; 0x80 + c mod 64]
  else [c - bad_base].

(* byte-string interface *)
Definition utf8_items (bs : list byte) : list item := decode (map Byte.to_N bs).
Definition utf8_decode (bs : list byte) : list N := map item_to_N (utf8_items bs).
Definition utf8_encode (cps : list N) : list byte := map byte_of_N (flat_map encode1 cps).
Definition utf8_valid (bs : list byte) : bool := forallb is_cp (utf8_items bs).

Theorem utf8_items_app a b : utf8_valid a = true -> utf8_items (a ++ b) = utf8_items a ++ utf8_items b.
Proof. unfold utf8_valid, utf8_items. intros H. rewrite map_app. apply decode_app. exact H. Qed.

Theorem utf8_decode_app a b : utf8_valid a = true -> utf8_decode (a ++ b) = utf8_decode a ++ utf8_decode b.
Proof. intros H. unfold utf8_decode. rewrite utf8_items_app by exact H. apply map_app. Qed.

Lemma utf8_valid_app a b : utf8_valid a = true -> utf8_valid b = true -> utf8_valid (a ++ b) = true.
Proof.
  intros Ha Hb. unfold utf8_valid. rewrite utf8_items_app by exact Ha.
  rewrite forallb_app. unfold utf8_valid in Ha, Hb. rewrite Ha, Hb. reflexivity.
Qed.

Lemma utf8_encode_app a b : utf8_encode (a ++ b) = utf8_encode a ++ utf8_encode b.
Proof. unfold utf8_encode. rewrite flat_map_app, map_app. reflexivity. Qed.

(* Unicode White_Space *)
Definition is_space_cp (c : N) : bool :=
  ((9 <=? c) && (c <=? 13)) || (c =? 0x20) || (c =? 0x85) || (c =? 0xA0) || (c =? 0x1680) ||
  ((0x2000 <=? c) && (c <=? 0x200A)) || (c =? 0x2028) || (c =? 0x2029) || (c =? 0x202F) ||
  (c =? 0x205F) || (c =? 0x3000).

