(* PBKDF2 (RFC 8018, section 5.2) with PRF = HMAC-SHA-512 (hLen = 64).
     DK = T_1 || T_2 || ... || T_l   truncated to dkLen bytes,   l = ceil(dkLen / hLen)
     T_i = F(P, S, c, i) = U_1 xor U_2 xor ... xor U_c
     U_1 = PRF(P, S || INT(i)),  U_j = PRF(P, U_{j-1})
   INT(i) is the 4-byte big-endian encoding of the block index i (starting at 1). *)
From B39 Require Import Lib.Base Lib.Sha512 Lib.Hmac.

(* 4-byte big-endian INT(i); byte_of_N reduces mod 256 *)
Definition int32be (i : N) : list byte :=
  [byte_of_N (N.shiftr i 24); byte_of_N (N.shiftr i 16); byte_of_N (N.shiftr i 8); byte_of_N i].

(* pointwise xor, truncating to the shorter argument (both are 64 bytes wherever it is used) *)
Fixpoint xor_bytes (a b : list byte) : list byte :=
  match a, b with
  | x :: a', y :: b' => xor_byte x y :: xor_bytes a' b'
  | _, _ => []
  end.

(* one further iteration: state is (U_j, U_1 xor ... xor U_j) *)
Definition pbkdf2_step (pw : list byte) (st : list byte * list byte) : list byte * list byte :=
  let u' := hmac_sha512 pw (fst st) in (u', xor_bytes (snd st) u').

(* F(P, S, c, i).  The c-1 further iterations use N.iter (binary recursion on the count),
   so a large count builds no deep unary number.  The RFC requires c >= 1; here c = 0
   behaves exactly like c = 1 (N.pred 0 = 0), i.e. T_i = U_1. *)
Definition pbkdf2_F (pw salt : list byte) (c : N) (i : N) : list byte :=
  let u1 := hmac_sha512 pw (salt ++ int32be i) in
  snd (N.iter (N.pred c) (pbkdf2_step pw) (u1, u1)).

(* T_i || T_(i+1) || ... (n blocks) *)
Fixpoint pbkdf2_blocks (pw salt : list byte) (c : N) (n : nat) (i : N) : list byte :=
  match n with
  | O => []
  | S n' => pbkdf2_F pw salt c i ++ pbkdf2_blocks pw salt c n' (N.succ i)
  end.

(* l = ceil(dklen / 64) blocks, truncated to dklen bytes.
   (RFC 8018 rejects dkLen > (2^32 - 1) * hLen; no such bound is imposed here, the block
   index is simply encoded mod 2^32.) *)
Definition pbkdf2_hmac_sha512 (password salt : list byte) (iter : N) (dklen : nat) : list byte :=
  firstn dklen (pbkdf2_blocks password salt iter ((dklen + 63) / 64) 1%N).

Lemma xor_bytes_length a : forall b, length (xor_bytes a b) = Nat.min (length a) (length b).
Proof.
  induction a as [|x a IH]; intros [|y b]; cbn [xor_bytes length Nat.min]; try reflexivity.
  rewrite IH. reflexivity.
Qed.

Lemma pbkdf2_iter_length pw (p : positive) : forall st,
  length (snd st) = 64%nat -> length (snd (Pos.iter (pbkdf2_step pw) st p)) = 64%nat.
Proof.
  induction p as [p IH|p IH|]; intros st H; cbn [Pos.iter].
  - unfold pbkdf2_step at 1. cbn [snd]. rewrite xor_bytes_length, hmac_sha512_length.
    rewrite IH by (apply IH; exact H). reflexivity.
  - apply IH. apply IH. exact H.
  - unfold pbkdf2_step. cbn [snd]. rewrite xor_bytes_length, hmac_sha512_length, H. reflexivity.
Qed.

Lemma pbkdf2_F_length pw salt c i : length (pbkdf2_F pw salt c i) = 64%nat.
Proof.
  unfold pbkdf2_F. destruct (N.pred c) as [|p]; cbn [N.iter snd].
  - apply hmac_sha512_length.
  - apply pbkdf2_iter_length. cbn [snd]. apply hmac_sha512_length.
Qed.

Lemma pbkdf2_blocks_length pw salt c n : forall i,
  length (pbkdf2_blocks pw salt c n i) = (64 * n)%nat.
Proof.
  induction n as [|n IH]; intros i; cbn [pbkdf2_blocks length]; [lia|].
  rewrite app_length, pbkdf2_F_length, IH. lia.
Qed.

Lemma pbkdf2_length pw salt c dklen : length (pbkdf2_hmac_sha512 pw salt c dklen) = dklen.
Proof.
  unfold pbkdf2_hmac_sha512. rewrite firstn_length, pbkdf2_blocks_length.
  pose proof (Nat.div_mod (dklen + 63) 64 ltac:(discriminate)) as Hd.
  pose proof (Nat.mod_upper_bound (dklen + 63) 64 ltac:(discriminate)) as Hm.
  lia.
Qed.

(* ---------- tests of the definition against python3 hashlib.pbkdf2_hmac('sha512', ...) ---------- *)
Local Open Scope N_scope.
Example pbkdf2_t1 : hex_of_bytes (pbkdf2_hmac_sha512 (ascii_bytes "password") (ascii_bytes "salt") 1 20) =
  0x867f70cf1ade02cff3752599a3a53dc4af34c7a6.
Proof. vm_compute. reflexivity. Qed.
Example pbkdf2_t2 : hex_of_bytes (pbkdf2_hmac_sha512 (ascii_bytes "password") (ascii_bytes "salt") 1 64) =
  0x867f70cf1ade02cff3752599a3a53dc4af34c7a669815ae5d513554e1c8cf252c02d470a285a0501bad999bfe943c08f050235d7d68b1da55e63f73b60a57fce.
Proof. vm_compute. reflexivity. Qed.
(* two blocks, second one truncated to a single byte *)
Example pbkdf2_t3 : hex_of_bytes (pbkdf2_hmac_sha512 (ascii_bytes "password") (ascii_bytes "salt") 2 65) =
  0xe1d9c16aa681708a45f5c7c4e215ceb66e011a2e9f0040713f18aefdb866d53cf76cab2868a39b9f7840edce4fef5a82be67335c77a6068e04112754f27ccf4e47.
Proof. vm_compute. reflexivity. Qed.
Example pbkdf2_t4 : hex_of_bytes (pbkdf2_hmac_sha512 (ascii_bytes "password") (ascii_bytes "salt") 3 100) =
  0xb6b07cb2cebf4ad84468391a543824fccffe0e0769dbe6bddf10a65673c4b648e612d44918f9ce9a19a1294cf5140628084ba994c3b21a4ef4741220b811c633cfc0641fccbcc4164f1bbfcb1f33f595ae9aa4a33ddcce570157775980362c0ee28aa340.
Proof. vm_compute. reflexivity. Qed.
Example pbkdf2_t5 : hex_of_bytes (pbkdf2_hmac_sha512 (ascii_bytes "passwordPASSWORDpassword")
                                    (ascii_bytes "saltSALTsaltSALTsaltSALTsaltSALTsalt") 10 64) =
  0x85f8e3ba00a9f21192c310c0e51785a4f8f63dbfeb1b4a61961688be561a19f662ac04c70e45b7f2f035c6a6966485d6d573bfd05adcade79f1040075b795541.
Proof. vm_compute. reflexivity. Qed.
(* empty password and salt *)
Example pbkdf2_t6 : hex_of_bytes (pbkdf2_hmac_sha512 [] [] 1 64) =
  0x6d2ecbbbfb2e6dcd7056faf9af6aa06eae594391db983279a6bf27e0eb2286143ab0c996f33ca4b667e945829ea693340f2831797324e5f31df18ed171d18c97.
Proof. vm_compute. reflexivity. Qed.
Example pbkdf2_t7 : hex_of_bytes (pbkdf2_hmac_sha512 [] [] 2 20) =
  0xa422663fda8609a1e2fd53541260edf886ec6366.
Proof. vm_compute. reflexivity. Qed.
(* 200-byte password "ppp...p": longer than the HMAC block, so HMAC hashes it first *)
Example pbkdf2_t8 : hex_of_bytes (pbkdf2_hmac_sha512 (repeat x70 200) (ascii_bytes "NaCl") 3 65) =
  0x11df502a7fa786b74d5bf9ab26e658fa7c4468b4b4cb8309d5db8bc6c323f3e1c7a19304fffee46923f2ae1b175a786793ea6296a55a08a47db9b54c0cb9d9b798.
Proof. vm_compute. reflexivity. Qed.
Example pbkdf2_t9 : hex_of_bytes (pbkdf2_hmac_sha512 (repeat x70 200) [] 10 100) =
  0xf3e4c088509554dd26bb7bb19fc6f7a325382ddc06e6c722e287e45c1397ae5caa04bcfc0091d88b1d3e37694a7754e6f5d33e7b0ee908dcbdf9d68c3b8ad396e1f52504aa4d6dd48a69402f6d73b0a9fd72c27a45ae48310348df3726a60acc63ed42f0.
Proof. vm_compute. reflexivity. Qed.
(* exactly two full blocks; zero bytes; iteration count 0 behaves like 1 *)
Example pbkdf2_t10 : hex_of_bytes (pbkdf2_hmac_sha512 (ascii_bytes "password") (ascii_bytes "salt") 1 128) =
  0x867f70cf1ade02cff3752599a3a53dc4af34c7a669815ae5d513554e1c8cf252c02d470a285a0501bad999bfe943c08f050235d7d68b1da55e63f73b60a57fce7b532e206c2967d4c7d2ffa460539fc4d4e5eec70125d74c6c7cf86d25284f297907fcea1ad214effdbea23e1312084eabb180ab72edbac45ea2a53f5f5b9fe1.
Proof. vm_compute. reflexivity. Qed.
Example pbkdf2_t11 : pbkdf2_hmac_sha512 (ascii_bytes "password") (ascii_bytes "salt") 1 0 = [].
Proof. vm_compute. reflexivity. Qed.
Example pbkdf2_t12 : pbkdf2_hmac_sha512 (ascii_bytes "password") (ascii_bytes "salt") 0 64 =
                     pbkdf2_hmac_sha512 (ascii_bytes "password") (ascii_bytes "salt") 1 64.
Proof. vm_compute. reflexivity. Qed.

(* The BIP39 reference vector (2048 iterations = 2048 HMACs = 4096 SHA-512 calls = 8192 compressions) was
   checked once with
     Eval vm_compute in N.eqb (hex_of_bytes (pbkdf2_hmac_sha512
       (ascii_bytes "abandon abandon abandon abandon abandon abandon abandon abandon abandon abandon abandon about")
       (ascii_bytes "mnemonicTREZOR") 2048 64))
       0xc55257c360c07c72029aebc1b53c05ed0362ada38ead3e3e9efa3708e53495531f09a6987599d18264c1e1c92f2cf141630c7a3c4ab7c81b2f001698e7463b04.
   = true, but vm_compute needs about 84 s for it (about 30 s in extracted OCaml), so it is not
   kept as an Example here (an Example would compute it twice, at the tactic and again at Qed). *)

Print Assumptions pbkdf2_length.
