(* SHA-256 (FIPS 180-4) as an executable Gallina function.
   sha256N works on lists of byte values (N); sha256 is the list-byte wrapper. *)
From B39 Require Import Lib.Base.
Local Open Scope N_scope.

Definition w32 := 4294967296.
Definition add32 (a b : N) := N.land (a + b) 4294967295.
Definition rotr (n x : N) := N.lor (N.shiftr x n) (N.land (N.shiftl x (32 - n)) 4294967295).
Definition shr (n x : N) := N.shiftr x n.
Definition not32 (x : N) := N.lxor x 4294967295.

Definition K : list N := [
0x428a2f98;0x71374491;0xb5c0fbcf;0xe9b5dba5;0x3956c25b;0x59f111f1;0x923f82a4;0xab1c5ed5;
0xd807aa98;0x12835b01;0x243185be;0x550c7dc3;0x72be5d74;0x80deb1fe;0x9bdc06a7;0xc19bf174;
0xe49b69c1;0xefbe4786;0x0fc19dc6;0x240ca1cc;0x2de92c6f;0x4a7484aa;0x5cb0a9dc;0x76f988da;
0x983e5152;0xa831c66d;0xb00327c8;0xbf597fc7;0xc6e00bf3;0xd5a79147;0x06ca6351;0x14292967;
0x27b70a85;0x2e1b2138;0x4d2c6dfc;0x53380d13;0x650a7354;0x766a0abb;0x81c2c92e;0x92722c85;
0xa2bfe8a1;0xa81a664b;0xc24b8b70;0xc76c51a3;0xd192e819;0xd6990624;0xf40e3585;0x106aa070;
0x19a4c116;0x1e376c08;0x2748774c;0x34b0bcb5;0x391c0cb3;0x4ed8aa4a;0x5b9cca4f;0x682e6ff3;
0x748f82ee;0x78a5636f;0x84c87814;0x8cc70208;0x90befffa;0xa4506ceb;0xbef9a3f7;0xc67178f2].

Definition H0 : list N := [0x6a09e667;0xbb67ae85;0x3c6ef372;0xa54ff53a;0x510e527f;0x9b05688c;0x1f83d9ab;0x5be0cd19].

Definition bsig0 x := N.lxor (N.lxor (rotr 2 x) (rotr 13 x)) (rotr 22 x).
Definition bsig1 x := N.lxor (N.lxor (rotr 6 x) (rotr 11 x)) (rotr 25 x).
Definition ssig0 x := N.lxor (N.lxor (rotr 7 x) (rotr 18 x)) (shr 3 x).
Definition ssig1 x := N.lxor (N.lxor (rotr 17 x) (rotr 19 x)) (shr 10 x).
Definition ch x y z := N.lxor (N.land x y) (N.land (not32 x) z).
Definition maj x y z := N.lxor (N.lxor (N.land x y) (N.land x z)) (N.land y z).

(* message schedule: keep last 16 words, newest first *)
Fixpoint sched (n : nat) (w : list N) (acc : list N) : list N :=
  match n with
  | O => rev acc
  | S n' =>
    match w with
    | w1 :: w2 :: _ =>
      let w2v := nth 1 w 0 in
      let w7 := nth 6 w 0 in
      let w15 := nth 14 w 0 in
      let w16 := nth 15 w 0 in
      let nw := add32 (add32 (ssig1 w2v) w7) (add32 (ssig0 w15) w16) in
      sched n' (nw :: firstn 15 w) (nw :: acc)
    | _ => rev acc
    end
  end.

Definition round (st : N*N*N*N*N*N*N*N) (kw : N * N) :=
  let '(a,b,c,d,e,f,g,h) := st in
  let '(k,w) := kw in
  let t1 := add32 (add32 (add32 h (bsig1 e)) (add32 (ch e f g) k)) w in
  let t2 := add32 (bsig0 a) (maj a b c) in
  (add32 t1 t2, a, b, c, add32 d t1, e, f, g).

Definition compress (h : list N) (blk : list N) : list N :=
  let ws := blk ++ sched 48 (rev blk) [] in
  match h with
  | [a;b;c;d;e;f;g;hh] =>
    let '(a',b',c',d',e',f',g',h') := fold_left round (combine K ws) (a,b,c,d,e,f,g,hh) in
    [add32 a a'; add32 b b'; add32 c c'; add32 d d'; add32 e e'; add32 f f'; add32 g g'; add32 hh h']
  | _ => h
  end.

Fixpoint words_of_bytes (fuel : nat) (bs : list N) : list N :=
  match fuel with O => [] | S f =>
  match bs with
  | a :: b :: c :: d :: r => (a * 16777216 + b * 65536 + c * 256 + d) :: words_of_bytes f r
  | _ => []
  end end.

Definition bytes_of_word (w : N) : list N :=
  [N.shiftr w 24; N.land (N.shiftr w 16) 255; N.land (N.shiftr w 8) 255; N.land w 255].

Definition be64 (n : N) : list N :=
  map (fun i => N.land (N.shiftr n (8 * i)) 255) [7;6;5;4;3;2;1;0].

Definition pad (msg : list N) : list N :=
  let l := N.of_nat (length msg) in
  let k := (64 - ((l + 9) mod 64)) mod 64 in
  msg ++ [128] ++ repeat 0 (N.to_nat k) ++ be64 (8 * l).

Fixpoint blocks (fuel : nat) (ws : list N) (h : list N) : list N :=
  match fuel with O => h | S f =>
  match ws with
  | [] => h
  | _ => blocks f (skipn 16 ws) (compress h (firstn 16 ws))
  end end.

Definition sha256N (msg : list N) : list N :=
  let p := pad msg in
  let ws := words_of_bytes (length p) p in
  flat_map bytes_of_word (blocks (length ws) ws H0).

Definition hex (bs : list N) := fold_left (fun acc b => acc * 256 + b) bs 0.

Definition sha256 (m : list byte) : list byte := map byte_of_N (sha256N (map Byte.to_N m)).

Lemma compress_length h blk : length h = 8%nat -> length (compress h blk) = 8%nat.
Proof.
  intros H. unfold compress.
  do 9 (destruct h as [|? h]; try discriminate H).
  destruct (fold_left round _ _) as [[[[[[[a' b'] c'] d'] e'] f'] g'] h']. reflexivity.
Qed.

Lemma blocks_length fuel : forall ws h, length h = 8%nat -> length (blocks fuel ws h) = 8%nat.
Proof.
  induction fuel as [|f IH]; intros ws h H; cbn [blocks]; [exact H|].
  destruct ws; [exact H|]. apply IH. apply compress_length. exact H.
Qed.

Lemma flat_map_const_length {A B} (f : A -> list B) k l :
  (forall x, length (f x) = k) -> length (flat_map f l) = (k * length l)%nat.
Proof.
  intros Hf. induction l as [|x l IH]; cbn [flat_map length]; [lia|].
  rewrite app_length, Hf, IH. lia.
Qed.

Lemma sha256_length m : length (sha256 m) = 32%nat.
Proof.
  unfold sha256, sha256N. rewrite map_length.
  rewrite (flat_map_const_length bytes_of_word 4) by reflexivity.
  rewrite blocks_length by reflexivity. reflexivity.
Qed.

(* NIST known answers (a test of the definition, not a proof of anything) *)
Definition hex_of (bs : list byte) : N := fold_left (fun acc b => acc * 256 + Byte.to_N b) bs 0.
Example sha256_empty : hex_of (sha256 []) = 0xe3b0c44298fc1c149afbf4c8996fb92427ae41e4649b934ca495991b7852b855.
Proof. vm_compute. reflexivity. Qed.
Example sha256_abc : hex_of (sha256 [x61; x62; x63]) = 0xba7816bf8f01cfea414140de5dae2223b00361a396177a9cb410ff61f20015ad.
Proof. vm_compute. reflexivity. Qed.
