(* BIP39, as a specification a reader can audit in minutes.
   Nothing here mentions big integers, maps, onces or readers; the word tables
   are the pinned canonical lists. *)
From B39 Require Import Lib.Base Lib.Bits Lib.Utf8 Lib.Nfkd Lib.Pbkdf2.
From B39 Require Import Spec.Canon_ChineseSimplified Spec.Canon_ChineseTraditional Spec.Canon_Czech
  Spec.Canon_English Spec.Canon_French Spec.Canon_Italian Spec.Canon_Japanese Spec.Canon_Korean
  Spec.Canon_Portuguese Spec.Canon_Spanish.
Local Open Scope N_scope.

(* ---------- the ten languages, by their BIP39 identifier ---------- *)
Definition canon_tables : list (string * list (list byte)) := [
  ("ChineseSimplified"%string, canon_ChineseSimplified);
  ("ChineseTraditional"%string, canon_ChineseTraditional);
  ("Czech"%string, canon_Czech);
  ("English"%string, canon_English);
  ("French"%string, canon_French);
  ("Italian"%string, canon_Italian);
  ("Japanese"%string, canon_Japanese);
  ("Korean"%string, canon_Korean);
  ("Portuguese"%string, canon_Portuguese);
  ("Spanish"%string, canon_Spanish)].

Fixpoint assoc {A} (k : string) (l : list (string * A)) : option A :=
  match l with
  | [] => None
  | (k', v) :: r => if String.eqb k' k then Some v else assoc k r
  end.

Definition canon (name : string) : list (list byte) :=
  match assoc name canon_tables with Some t => t | None => [] end.

(* words are joined by one U+0020, by one U+3000 (E3 80 80) for Japanese *)
Definition separator (name : string) : list byte :=
  if String.eqb name "Japanese" then [xe3; x80; x80] else [x20].

Definition valid_ent (n : nat) : Prop := In n [16; 20; 24; 28; 32]%nat.
Definition valid_wc (n : nat) : Prop := In n [12; 15; 18; 21; 24]%nat.

Section WithHash.
Variable hash : list byte -> list byte.   (* SHA-256 *)

(* ---------- encoding ---------- *)
(* checksum = first ENT/32 bits of the hash; ENT/32 = (number of bytes)/4 *)
Definition checksum_bits (ent : list byte) : list bool := firstn (length ent / 4) (bits (hash ent)).

Definition bip39_indices (ent : list byte) : list N :=
  map val (chunks 11 (length ent / 4 * 3) (bits ent ++ checksum_bits ent)).

Definition word_at (tbl : list (list byte)) (i : N) : list byte := nth (N.to_nat i) tbl [].

Definition bip39_encode (name : string) (ent : list byte) : list byte :=
  join (separator name) (map (word_at (canon name)) (bip39_indices ent)).

(* ---------- decoding ---------- *)
(* Unicode White_Space *)
Definition is_space_cp (c : N) : bool :=
  ((9 <=? c) && (c <=? 13)) || (c =? 0x20) || (c =? 0x85) || (c =? 0xA0) || (c =? 0x1680) ||
  ((0x2000 <=? c) && (c <=? 0x200A)) || (c =? 0x2028) || (c =? 0x2029) || (c =? 0x202F) ||
  (c =? 0x205F) || (c =? 0x3000).

(* whitespace-separated tokens (maximal runs of non-whitespace), as byte strings *)
Definition ws_tokens (s : list byte) : list (list byte) :=
  map utf8_encode (filter (fun t => match t with [] => false | _ => true end)
                          (split_at is_space_cp (utf8_decode s))).

Fixpoint lookup_all (tbl : list (list byte)) (toks : list (list byte)) : option (list N) :=
  match toks with
  | [] => Some []
  | t :: r =>
    match index_of t tbl, lookup_all tbl r with
    | Some i, Some is => Some (N.of_nat i :: is)
    | _, _ => None
    end
  end.

Definition bits_of_indices (idx : list N) : list bool := flat_map (bits_of_N 11) idx.
Definition bytes_of_bits (bs : list bool) : list byte :=
  map (fun c => byte_of_N (val c)) (chunks 8 (length bs / 8) bs).

(* n words carry 11n bits: the first 32n/3 are entropy, the last n/3 the checksum *)
Definition entropy_of_indices (idx : list N) : list byte :=
  let n := length idx in bytes_of_bits (firstn (11 * n - n / 3) (bits_of_indices idx)).
Definition checksum_of_indices (idx : list N) : list bool :=
  let n := length idx in skipn (11 * n - n / 3) (bits_of_indices idx).

Definition bip39_decode (name : string) (s : list byte) : option (list byte) :=
  match lookup_all (canon name) (ws_tokens s) with
  | Some idx => Some (entropy_of_indices idx)
  | None => None
  end.

(* ---------- validity of a sentence ---------- *)
Definition checksum_ok (idx : list N) : Prop :=
  checksum_of_indices idx = firstn (length idx / 3) (bits (hash (entropy_of_indices idx))).

Definition valid_sentence (name : string) (toks : list (list byte)) : Prop :=
  exists idx, toks = map (word_at (canon name)) idx /\ valid_wc (length idx) /\
              Forall (fun i => i < 2048) idx /\ checksum_ok idx.

(* the same, decidably, on a string: the whitespace-separated tokens of its NFKD form *)
Definition valid_wc_b (n : nat) : bool := existsb (Nat.eqb n) [12; 15; 18; 21; 24]%nat.
Fixpoint bools_eqb (a b : list bool) : bool :=
  match a, b with
  | [], [] => true
  | x :: a', y :: b' => Bool.eqb x y && bools_eqb a' b'
  | _, _ => false
  end.
Definition spec_accepts (name : string) (s : list byte) : bool :=
  match lookup_all (canon name) (ws_tokens (nfkd s)) with
  | None => false
  | Some idx =>
    valid_wc_b (length idx) &&
    bools_eqb (checksum_of_indices idx) (firstn (length idx / 3) (bits (hash (entropy_of_indices idx))))
  end.
End WithHash.

(* ---------- seed ---------- *)
Definition mnemonic_salt : list byte := [x6d; x6e; x65; x6d; x6f; x6e; x69; x63].  (* "mnemonic" *)
Definition bip39_seed (mnemonic passphrase : list byte) : list byte :=
  pbkdf2_hmac_sha512 (nfkd mnemonic) (mnemonic_salt ++ nfkd passphrase) 2048 64.
