(* BIP39, as a specification a reader can audit in minutes.
   Nothing here mentions big integers, maps, onces or readers; the word tables
   are the pinned canonical lists. *)
From B39 Require Import Lib.Base Lib.Bits Lib.Utf8 Lib.Nfkd Lib.Pbkdf2.
From B39 Require Import Spec.Canon_ChineseSimplified Spec.Canon_ChineseTraditional Spec.Canon_Czech
  Spec.Canon_English Spec.Canon_French Spec.Canon_Italian Spec.Canon_Japanese Spec.Canon_Korean
  Spec.Canon_Portuguese Spec.Canon_Spanish.
Local Open Scope N_scope.

(* ---------- the ten languages, by their BIP39 identifier ---------- *)
Definition canon_tables : list (string * list (list byte)) := [
  ("ChineseSimplified"%string, canon_ChineseSimplified);
  ("ChineseTraditional"%string, canon_ChineseTraditional);
  ("Czech"%string, canon_Czech);
  ("English"%string, canon_English);
  ("French"%string, canon_French);
  ("Italian"%string, canon_Italian);
  ("Japanese"%string, canon_Japanese);
  ("Korean"%string, canon_Korean);
  ("Portuguese"%string, canon_Portuguese);
  ("Spanish"%string, canon_Spanish)].

Fixpoint assoc {A} (k : string) (l : list (string * A)) : option A :=
  match l with
  | [] => None
  | (k', v) :: r => if String.eqb k' k then Some v else assoc k r
  end.

Definition canon (name : string) : list (list byte) :=
  match assoc name canon_tables with Some t => t | None => [] end.

(* words are joined by one U+0020, by one U+3000 (E3 80 80) for Japanese *)
Definition separator (name : string) : list byte :=
  if String.eqb name "Japanese" then [xe3; x80; x80] else [x20].

Definition valid_ent (n : nat) : Prop := In n [16; 20; 24; 28; 32]%nat.
Definition valid_wc (n : nat) : Prop := In n [12; 15; 18; 21; 24]%nat.

Section WithHash.
Variable hash : list byte -> list byte.   (* SHA-256 *)

(* ---------- encoding ---------- *)
(* checksum = first ENT/32 bits of the hash; ENT/32 = (number of bytes)/4 *)
Definition checksum_bits (ent : list byte) : list bool := firstn (length ent / 4) (bits (hash ent)).

Definition bip39_indices (ent : list byte) : list N :=
  map val (chunks 11 (length ent / 4 * 3) (bits ent ++ checksum_bits ent)).

Definition word_at (tbl : list (list byte)) (i : N) : list byte := nth (N.to_nat i) tbl [].

Definition encode_with (sep : list byte) (tbl : list (list byte)) (ent : list byte) : list byte :=
  join sep (map (word_at tbl) (bip39_indices ent)).
Definition bip39_encode (name : string) (ent : list byte) : list byte :=
  encode_with (separator name) (canon name) ent.

(* ---------- decoding ---------- *)
(* whitespace-separated tokens (maximal runs of non-whitespace), as byte strings *)
Definition ws_tokens (s : list byte) : list (list byte) :=
  map utf8_encode (filter (fun t => match t with [] => false | _ => true end)
                          (split_at is_space_cp (utf8_decode s))).

(* a table as a partial map word -> index (first occurrence; tables have no duplicates) *)
Definition tbl_get (tbl : list (list byte)) (w : list byte) : option N :=
  match index_of w tbl with Some i => Some (N.of_nat i) | None => None end.

Fixpoint lookup_all (get : list byte -> option N) (toks : list (list byte)) : option (list N) :=
  match toks with
  | [] => Some []
  | t :: r =>
    match get t, lookup_all get r with
    | Some i, Some is => Some (i :: is)
    | _, _ => None
    end
  end.

(* the first token that is not a word, with its position *)
Fixpoint first_unknown (get : list byte -> option N) (toks : list (list byte)) (i : nat) : option (list byte * nat) :=
  match toks with
  | [] => None
  | t :: r => match get t with None => Some (t, i) | Some _ => first_unknown get r (S i) end
  end.

Definition bits_of_indices (idx : list N) : list bool := flat_map (bits_of_N 11) idx.

(* n words carry 11n bits: the first 32n/3 are entropy, the last n/3 the checksum *)
Definition entropy_of_indices (idx : list N) : list byte :=
  let n := length idx in bytes_of_bits (firstn (11 * n - n / 3) (bits_of_indices idx)).
Definition checksum_of_indices (idx : list N) : list bool :=
  let n := length idx in skipn (11 * n - n / 3) (bits_of_indices idx).

Definition decode_with (tbl : list (list byte)) (s : list byte) : option (list byte) :=
  match lookup_all (tbl_get tbl) (ws_tokens s) with
  | Some idx => Some (entropy_of_indices idx)
  | None => None
  end.
Definition bip39_decode (name : string) (s : list byte) : option (list byte) := decode_with (canon name) s.

(* ---------- validity of a sentence ---------- *)
Definition checksum_ok (idx : list N) : Prop :=
  checksum_of_indices idx = firstn (length idx / 3) (bits (hash (entropy_of_indices idx))).

Definition valid_sentence_with (tbl : list (list byte)) (toks : list (list byte)) : Prop :=
  exists idx, toks = map (word_at tbl) idx /\ valid_wc (length idx) /\
              Forall (fun i => i < 2048) idx /\ checksum_ok idx.
Definition valid_sentence (name : string) := valid_sentence_with (canon name).

(* the same, decidably, on a string: the whitespace-separated tokens of its NFKD form *)
Definition valid_wc_b (n : nat) : bool := existsb (Nat.eqb n) [12; 15; 18; 21; 24]%nat.
Fixpoint bools_eqb (a b : list bool) : bool :=
  match a, b with
  | [], [] => true
  | x :: a', y :: b' => Bool.eqb x y && bools_eqb a' b'
  | _, _ => false
  end.
Definition checksum_okb (idx : list N) : bool :=
  bools_eqb (checksum_of_indices idx) (firstn (length idx / 3) (bits (hash (entropy_of_indices idx)))).

(* what is wrong with a token list, in the order the property names the defects *)
Inductive verdict := VOk | VWordLen | VUnknown (tok : list byte) (pos : nat) | VChecksum.
Definition classify (get : list byte -> option N) (toks : list (list byte)) : verdict :=
  if negb (valid_wc_b (length toks)) then VWordLen else
  match first_unknown get toks 0 with
  | Some (t, i) => VUnknown t i
  | None =>
    match lookup_all get toks with
    | Some idx => if checksum_okb idx then VOk else VChecksum
    | None => VWordLen (* unreachable: no unknown token *)
    end
  end.

Definition accepts_with (tbl : list (list byte)) (s : list byte) : bool :=
  match lookup_all (tbl_get tbl) (ws_tokens (nfkd s)) with
  | None => false
  | Some idx =>
    valid_wc_b (length idx) && checksum_okb idx
  end.
Definition spec_accepts (name : string) (s : list byte) : bool := accepts_with (canon name) s.
End WithHash.

(* ---------- seed ---------- *)
Definition mnemonic_salt : list byte := [x6d; x6e; x65; x6d; x6f; x6e; x69; x63].  (* "mnemonic" *)
Definition bip39_seed (mnemonic passphrase : list byte) : list byte :=
  pbkdf2_hmac_sha512 (nfkd mnemonic) (mnemonic_salt ++ nfkd passphrase) 2048 64.
