//go:build !verif

package main

import "io"

// the PLAIN build of the package (no verif tag, what users compile): ops that need the randomness hook are not
// available; everything else runs exactly the code a user builds
const hooksOn = false

func swapRandSource(r io.Reader) io.Reader { panic("op needs the verif hooks; this is the plain build") }
