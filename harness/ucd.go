package main

import (
	"fmt"
	"unicode"

	"golang.org/x/text/unicode/norm"
)

// ucdDump prints the NFKD data of the x/text version the package is built
// against, through its public Properties API, in the format of
// ucd/nfkd_xtext.txt ("table") or ucd/combines_backward.txt ("backward").
func ucdDump(args []string) {
	what := "table"
	if len(args) > 0 {
		what = args[0]
	}
	if what == "table" {
		fmt.Printf("# %s %s\n", norm.Version, unicode.Version)
	}
	for r := rune(0); r <= 0x10FFFF; r++ {
		if r >= 0xD800 && r <= 0xDFFF {
			continue
		}
		if r >= 0xAC00 && r <= 0xD7A3 { // Hangul syllables are decomposed arithmetically
			continue
		}
		p := norm.NFKD.PropertiesString(string(r))
		d := p.Decomposition()
		switch what {
		case "table":
			if p.CCC() == 0 && d == nil {
				continue
			}
			fmt.Printf("%X %d", r, p.CCC())
			for _, c := range string(d) {
				fmt.Printf(" %X", c)
			}
			fmt.Println()
		case "backward":
			if p.CCC() == 0 && !p.BoundaryBefore() && d == nil {
				fmt.Printf("%X\n", r)
			}
		}
	}
}
