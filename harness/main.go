// implrun executes the real isLishude/bip39 package (built from /repo's working
// tree with -tags verif) on a case file and prints one canonical result line
// per case, in the format the extracted Coq model prints (coq/Extract/driver.ml).
package main

import (
	"bufio"
	"bytes"
	"crypto/hmac"
	"crypto/rand"
	"crypto/sha256"
	"crypto/sha512"
	"encoding/hex"
	"errors"
	"fmt"
	"go/ast"
	"go/parser"
	"go/token"
	"go/types"
	"hash/crc32"
	"io"
	"os"
	"os/exec"
	"strconv"
	"strings"
	"sync"
	"time"

	"github.com/islishude/bip39"
	"golang.org/x/crypto/pbkdf2"
	"golang.org/x/text/unicode/norm"
)

func unhex(s string) []byte {
	if s == "-" {
		return []byte{}
	}
	if s == "nil" {
		return nil
	}
	b, err := hex.DecodeString(s)
	if err != nil {
		panic("bad hex in case file: " + s)
	}
	return b
}

// spareCap returns b as a sub-slice of a larger guarded array (len(b) bytes followed by 48 guard bytes it
// may grow into: cap > len), together with the whole array, so that writes past len - e.g. through append -
// are caught as mutation of caller-owned memory.  A nil slice stays nil.
func spareCap(b []byte) (sub, whole []byte) {
	if b == nil {
		return nil, nil
	}
	whole = make([]byte, len(b)+48)
	copy(whole, b)
	for i := len(b); i < len(whole); i++ {
		whole[i] = 0xA5 ^ byte(i)
	}
	return whole[:len(b)], whole
}

// entropyArg is spareCap, except that (outside the race programs) about half of the E calls pass the SAME
// guarded array as the previous such call of that length, refilled in place - a caller that reuses one buffer
// for successive entropies.  A library that keeps a reference to its argument (a cache keyed by the slice, a
// retained sub-slice) then sees its own memory change between calls; the caller is within its rights.
var reuseOK = true
var reuseBufs = map[int][]byte{}

func entropyArg(b []byte, key string) (sub, whole []byte) {
	if b == nil || !reuseOK || crc32.ChecksumIEEE([]byte(key))%2 != 0 {
		return spareCap(b)
	}
	w, ok := reuseBufs[len(b)]
	if !ok {
		_, w = spareCap(b)
		reuseBufs[len(b)] = w
	}
	copy(w, b)
	return w[:len(b)], w
}

func hx(b []byte) string {
	if len(b) == 0 {
		return "-"
	}
	return hex.EncodeToString(b)
}

// ---------------------------------------------------------------- scripted reader

var errX = map[string]error{}

// tempErr is an error that reports itself as temporary / timeout (like syscall.EAGAIN or a net timeout)
type tempErr struct{ tag string }

func (e *tempErr) Error() string   { return "scripted temporary failure " + e.tag }
func (e *tempErr) Temporary() bool { return true }
func (e *tempErr) Timeout() bool   { return true }

func xerr(tag string) error {
	if e, ok := errX[tag]; ok {
		return e
	}
	var e error
	if strings.HasPrefix(tag, "t") {
		e = &tempErr{tag}
	} else {
		e = errors.New("scripted failure " + tag)
	}
	errX[tag] = e
	return e
}

type item struct {
	d     []byte
	err   error
	delay time.Duration // the source blocks this long before answering
}

type scriptReader struct {
	items []item
	reads int
	used  int
}

func (r *scriptReader) Read(p []byte) (int, error) {
	r.reads++
	if len(r.items) == 0 {
		return 0, io.EOF
	}
	it := &r.items[0]
	if it.delay > 0 {
		time.Sleep(it.delay)
		it.delay = 0
	}
	if len(it.d) <= len(p) {
		n := copy(p, it.d)
		err := it.err
		r.items = r.items[1:]
		r.used += n
		return n, err
	}
	n := copy(p, it.d[:len(p)])
	it.d = it.d[len(p):]
	r.used += n
	return n, nil
}

// valueReader is a legal io.Reader whose dynamic type is NOT comparable (a struct holding a slice, passed by value)
type valueReader struct {
	r   *scriptReader
	pad []byte
}

func (v valueReader) Read(p []byte) (int, error) { return v.r.Read(p) }

func parseScript(s string) *scriptReader {
	r := &scriptReader{}
	if s == "-" {
		return r
	}
	for _, part := range strings.Split(s, ",") {
		de := strings.SplitN(part, ":", 2)
		it := item{d: append([]byte{}, unhex(de[0])...)}
		if k := strings.Index(de[1], "@"); k >= 0 { // <err>@<milliseconds>
			it.delay = time.Duration(atoi(de[1][k+1:])) * time.Millisecond
			de[1] = de[1][:k]
		}
		switch de[1] {
		case "-":
		case "eof":
			it.err = io.EOF
		case "ueof":
			it.err = io.ErrUnexpectedEOF
		default:
			it.err = xerr(de[1])
		}
		r.items = append(r.items, it)
	}
	return r
}

func ioClass(err error) (string, bool) {
	switch {
	case err == io.EOF:
		return "io eof", true
	case err == io.ErrUnexpectedEOF:
		return "io ueof", true
	}
	for tag, e := range errX {
		if err == e {
			return "io " + tag, true
		}
	}
	return "", false
}

// ---------------------------------------------------------------- error classes

func errClass(err error) string {
	switch {
	case err == nil:
		return "nil"
	case errors.Is(err, bip39.ErrWordLen):
		return "wordlen"
	case errors.Is(err, bip39.ErrEntropyLen):
		return "entropylen"
	case errors.Is(err, bip39.ErrChecksumIncorrect):
		return "checksum"
	}
	if c, ok := ioClass(err); ok {
		return c
	}
	msg := err.Error()
	const pre, mid, suf = "word `", "` at `", "` not found in mnemonic mapping"
	if strings.HasPrefix(msg, pre) && strings.HasSuffix(msg, suf) {
		body := msg[len(pre) : len(msg)-len(suf)]
		if i := strings.LastIndex(body, mid); i >= 0 {
			if pos, e := strconv.Atoi(body[i+len(mid):]); e == nil {
				return fmt.Sprintf("unknown %d %s", pos, hx([]byte(body[:i])))
			}
		}
	}
	return "other " + hx([]byte(msg))
}

func strErr(s string, err error) string {
	if err == nil {
		return "ok " + hx([]byte(s))
	}
	if s == "" {
		return "err " + errClass(err)
	}
	return "err+str " + errClass(err)
}

// guard runs f, turning a panic into the result "panic" and a hang into "hang".
func guard(f func() string) (res string) {
	done := make(chan string, 1)
	go func() {
		defer func() {
			if r := recover(); r != nil {
				done <- "panic"
			}
		}()
		done <- f()
	}()
	select {
	case r := <-done:
		return r
	case <-time.After(20 * time.Second):
		return "hang"
	}
}

var langByName = map[string]bip39.Language{
	"ChineseSimplified": bip39.ChineseSimplified, "ChineseTraditional": bip39.ChineseTraditional,
	"English": bip39.English, "French": bip39.French, "Italian": bip39.Italian, "Japanese": bip39.Japanese,
	"Korean": bip39.Korean, "Spanish": bip39.Spanish, "Czech": bip39.Czech, "Portuguese": bip39.Portuguese,
}

// lang resolves a language field: the identifier of an exported constant, or a decimal value.
func lang(s string) bip39.Language {
	if l, ok := langByName[s]; ok {
		return l
	}
	return bip39.Language(atoi(s))
}

func atoi(s string) int {
	v, err := strconv.ParseInt(s, 10, 64)
	if err != nil {
		panic("bad int in case file: " + s)
	}
	return int(v)
}

// ---------------------------------------------------------------- one op

var swapMu sync.Mutex

func runOp(f []string) string {
	switch f[0] {
	case "E":
		ent, whole := entropyArg(unhex(f[2]), strings.Join(f, " "))
		snap := append([]byte{}, whole...)
		return guard(func() string {
			s, err := bip39.NewMnemonicByEntropy(ent, lang(f[1]))
			r := strErr(s, err)
			if !bytes.Equal(snap, whole) {
				r += " MUTATED-ENTROPY"
			}
			return r
		})
	case "N":
		rd := parseScript(f[3])
		return guard(func() string {
			swapMu.Lock()
			defer swapMu.Unlock()
			var src io.Reader = rd
			if crc32.ChecksumIEEE([]byte(strings.Join(f, " ")))%3 == 0 { // a third of the calls use a reader of an uncomparable type
				src = valueReader{r: rd, pad: []byte{1}}
			}
			old := swapRandSource(src)
			defer swapRandSource(old)
			s, err := bip39.NewMnemonic(atoi(f[1]), lang(f[2]))
			rs := "0"
			if rd.reads > 0 {
				rs = "1"
			}
			return fmt.Sprintf("%s used=%d reads=%s", strErr(s, err), rd.used, rs)
		})
	case "N2": // N2 n1 n2 lang script1 script2: ONE reader object (script1 then script2) stays installed over two calls
		sc := f[4]
		if f[5] != "-" {
			if sc == "-" {
				sc = f[5]
			} else {
				sc += "," + f[5]
			}
		}
		rd := parseScript(sc)
		return guard(func() string {
			swapMu.Lock()
			defer swapMu.Unlock()
			old := swapRandSource(rd)
			defer swapRandSource(old)
			s1, err1 := bip39.NewMnemonic(atoi(f[1]), lang(f[3]))
			u1 := rd.used
			s2, err2 := bip39.NewMnemonic(atoi(f[2]), lang(f[3]))
			return fmt.Sprintf("%s used=%d || %s used=%d", strErr(s1, err1), u1, strErr(s2, err2), rd.used-u1)
		})
	case "C":
		s := string(unhex(f[2]))
		lang := lang(f[1])
		c := guard(func() string { return errClass(bip39.CheckMnemonic(s, lang)) })
		v := guard(func() string {
			if bip39.IsMnemonicValid(s, lang) {
				return "1"
			}
			return "0"
		})
		return c + " valid=" + v
	case "V":
		s := string(unhex(f[2]))
		lang := lang(f[1])
		return "valid=" + guard(func() string {
			if bip39.IsMnemonicValid(s, lang) {
				return "1"
			}
			return "0"
		})
	case "S", "SF":
		m, p := string(unhex(f[1])), string(unhex(f[2]))
		return guard(func() string {
			s1 := bip39.MnemonicToSeed(m, p)
			keep := append([]byte{}, s1...)
			for i := range s1 {
				s1[i] ^= 0xff
			}
			s1 = append(s1, 1, 2, 3)
			s2 := bip39.MnemonicToSeed(m, p)
			r := "seed " + hx(keep)
			if !bytes.Equal(s2, keep) {
				r += " NOT-FRESH"
			}
			return r
		})
	case "L":
		return guard(func() string { return "ok " + hx([]byte(lang(f[1]).String())) })
	case "LU": // LU <uint64>: the Language with this bit pattern (whatever its underlying integer type); num = its value by %d
		u, err := strconv.ParseUint(f[1], 10, 64)
		if err != nil {
			panic("bad uint in case file: " + f[1])
		}
		return guard(func() string {
			l := bip39.Language(u)
			return fmt.Sprintf("ok %s num=%s", hx([]byte(l.String())), fmt.Sprintf("%d", l))
		})
	// ---- dependency streams
	case "H":
		h := sha256.Sum256(unhex(f[1]))
		return hx(h[:])
	case "H5":
		h := sha512.Sum512(unhex(f[1]))
		return hx(h[:])
	case "M":
		mac := hmac.New(sha512.New, unhex(f[1]))
		mac.Write(unhex(f[2]))
		return hx(mac.Sum(nil))
	case "P":
		return hx(pbkdf2.Key(unhex(f[1]), unhex(f[2]), atoi(f[3]), atoi(f[4]), sha512.New))
	case "K":
		return guard(func() string { return hx([]byte(norm.NFKD.String(string(unhex(f[1]))))) })
	case "R":
		rd := parseScript(f[2])
		buf := make([]byte, atoi(f[1]))
		n, err := io.ReadFull(rd, buf)
		e := "-"
		if err != nil {
			c, ok := ioClass(err)
			if !ok {
				c = "io other"
			}
			e = strings.TrimPrefix(c, "io ")
		}
		return fmt.Sprintf("n=%d err=%s used=%d", n, e, rd.used)
	case "I":
		v, _ := strconv.ParseInt(f[1], 10, 64)
		return hx([]byte(strconv.FormatInt(v, 10)))
	case "MP": // MP <lang> <count> <seed> <11 known words, hex>: membership probe by volume
		// count pseudo-random tokens (letters, 3..9 bytes) are each put in front of 11 known list words; a token that
		// is not reported as the unknown word at position 0 is returned (at most 8) for the driver to examine
		l := lang(f[1])
		cnt, seed := atoi(f[2]), uint64(atoi(f[3]))
		tail := " " + string(unhex(f[4]))
		var hits []string
		x := seed*2862933555777941757 + 3037000493
		buf := make([]byte, 0, 16)
		for i := 0; i < cnt && len(hits) < 8; i++ {
			x ^= x << 13
			x ^= x >> 7
			x ^= x << 17
			n := 3 + int(x%7)
			buf = buf[:0]
			y := x
			for k := 0; k < n; k++ {
				buf = append(buf, byte('a'+y%26))
				y /= 26
			}
			err := bip39.CheckMnemonic(string(buf)+tail, l)
			if err == nil || errors.Is(err, bip39.ErrChecksumIncorrect) || errors.Is(err, bip39.ErrWordLen) {
				hits = append(hits, hx(buf))
			}
		}
		if len(hits) == 0 {
			return "ok"
		}
		return "hit " + strings.Join(hits, ",")
	case "GP": // GP <path>: parse a generated Go file with go/parser; the string list of its single var declaration
		return goParseList(f[1])
	// ---- default randomness source (C07)
	case "W": // identity of the pre-swap source
		swapMu.Lock()
		defer swapMu.Unlock()
		probe := &scriptReader{}
		old := swapRandSource(probe)
		back := swapRandSource(old)
		return fmt.Sprintf("default-is-crypto-rand=%v restored=%v", old == rand.Reader, back == io.Reader(probe))
	case "G": // G n lang count: default-source mnemonics
		var sb strings.Builder
		cnt := atoi(f[3])
		for i := 0; i < cnt; i++ {
			r := guard(func() string {
				s, err := bip39.NewMnemonic(atoi(f[1]), lang(f[2]))
				return strErr(s, err)
			})
			if i > 0 {
				sb.WriteByte(',')
			}
			sb.WriteString(strings.TrimPrefix(r, "ok "))
		}
		return sb.String()
	}
	panic("unknown op " + f[0])
}

func goParseList(path string) string {
	fs := token.NewFileSet()
	file, err := parser.ParseFile(fs, path, nil, 0)
	if err != nil {
		return "err parse " + hx([]byte(err.Error()))
	}
	if file.Name.Name != "wordlist" {
		return "err package " + file.Name.Name
	}
	var name string
	var words []string
	n := 0
	for _, d := range file.Decls {
		g, ok := d.(*ast.GenDecl)
		if !ok || g.Tok != token.VAR {
			return "err unexpected declaration"
		}
		for _, sp := range g.Specs {
			vs := sp.(*ast.ValueSpec)
			if len(vs.Names) != 1 || len(vs.Values) != 1 {
				return "err shape"
			}
			cl, ok := vs.Values[0].(*ast.CompositeLit)
			if !ok || types.ExprString(cl.Type) != "[]string" {
				return "err not a []string literal"
			}
			name = vs.Names[0].Name
			n++
			for _, e := range cl.Elts {
				bl, ok := e.(*ast.BasicLit)
				if !ok || bl.Kind != token.STRING {
					return "err element is not a string literal"
				}
				v, err := strconv.Unquote(bl.Value)
				if err != nil {
					return "err unquote"
				}
				words = append(words, v)
			}
		}
	}
	if n != 1 {
		return "err number of declarations"
	}
	hs := make([]string, len(words))
	for i, w := range words {
		hs[i] = hx([]byte(w))
	}
	return fmt.Sprintf("ok %s %d %s", hx([]byte(name)), len(words), strings.Join(hs, ","))
}

func runHistory(line string) string {
	ops := strings.Split(strings.TrimPrefix(line, "Q "), "|")
	type held struct {
		buf, snap []byte
	}
	var outs []string
	var helds []held
	var strs []string
	var strsSnap []string
	for _, o := range ops {
		f := strings.Fields(o)
		// keep caller-owned entropy slices and returned seeds alive and re-inspect them later
		if f[0] == "E" {
			ent, whole := spareCap(unhex(f[2]))
			if ent != nil {
				h := held{buf: whole, snap: append([]byte{}, whole...)}
				helds = append(helds, held{buf: ent, snap: append([]byte{}, ent...)})
				helds = append(helds, h)
				lang := lang(f[1])
				r := guard(func() string {
					s, err := bip39.NewMnemonicByEntropy(ent, lang)
					if err == nil {
						strs = append(strs, s)
						strsSnap = append(strsSnap, string(append([]byte{}, s...)))
					}
					return strErr(s, err)
				})
				outs = append(outs, r)
				continue
			}
		}
		if f[0] == "S" {
			m, p := string(unhex(f[1])), string(unhex(f[2]))
			r := guard(func() string {
				s := bip39.MnemonicToSeed(m, p)
				helds = append(helds, held{buf: s, snap: append([]byte{}, s...)})
				return "seed " + hx(s)
			})
			outs = append(outs, r)
			continue
		}
		outs = append(outs, runOp(f))
	}
	changed := 0
	for _, h := range helds {
		if !bytes.Equal(h.buf, h.snap) {
			changed++
		}
	}
	for i := range strs {
		if strs[i] != strsSnap[i] {
			changed++
		}
	}
	res := strings.Join(outs, " | ")
	if changed > 0 {
		res += fmt.Sprintf(" BUFFERS-CHANGED:%d", changed)
	}
	return res
}

func main() {
	if len(os.Args) > 1 {
		switch os.Args[1] {
		case "-one": // one history, this (fresh) process
			in := bufio.NewReaderSize(os.Stdin, 1<<26)
			line, _ := in.ReadString('\n')
			fmt.Println(runHistory(strings.TrimRight(line, "\n")))
			return
		case "race":
			raceMain(os.Args[2:])
			return
		case "ucddump":
			ucdDump(os.Args[2:])
			return
		}
	}
	in := bufio.NewScanner(os.Stdin)
	in.Buffer(make([]byte, 1<<20), 1<<28)
	out := bufio.NewWriterSize(os.Stdout, 1<<20)
	defer out.Flush()
	var lines []string
	for in.Scan() {
		if l := in.Text(); l != "" {
			lines = append(lines, l)
		}
	}
	results := make([]string, len(lines))
	// histories run in fresh processes (16 at a time); everything else in order in this process
	var wg sync.WaitGroup
	sem := make(chan struct{}, 16)
	self, _ := os.Executable()
	for i, l := range lines {
		if strings.HasPrefix(l, "Q ") {
			wg.Add(1)
			go func(i int, l string) {
				defer wg.Done()
				sem <- struct{}{}
				defer func() { <-sem }()
				cmd := exec.Command(self, "-one")
				// one P: what a sync.Pool or per-P cache hands back between calls of a history is deterministic
				cmd.Env = append(os.Environ(), "GOMAXPROCS=1")
				cmd.Stdin = strings.NewReader(l + "\n")
				outb, err := cmd.Output()
				if err != nil {
					results[i] = "process-failed " + err.Error()
					return
				}
				results[i] = strings.TrimRight(string(outb), "\n")
			}(i, l)
		}
	}
	for i, l := range lines {
		if !strings.HasPrefix(l, "Q ") {
			results[i] = runOp(strings.Fields(l))
		}
	}
	wg.Wait()
	for _, r := range results {
		out.WriteString(r)
		out.WriteByte('\n')
	}
}
