package main

import (
	"bufio"
	"fmt"
	"os"
	"strings"
	"sync"

	"github.com/islishude/bip39"
)

// raceMain: each line of the file is the op list of one goroutine (ops as in
// a Q history).  All goroutines are released together onto the cold package.
// NewMnemonic uses the default source here (swapping the source would itself be
// a write racing with readers), so its result is reported by shape only.
// A line "PRE op|op|..." is a prelude: those ops run sequentially first.
func raceMain(args []string) {
	reuseOK = false // concurrent callers each own their entropy buffer
	f, err := os.Open(args[0])
	if err != nil {
		panic(err)
	}
	sc := bufio.NewScanner(f)
	sc.Buffer(make([]byte, 1<<20), 1<<28)
	var progs [][]string
	var pre []string
	for sc.Scan() {
		if l := strings.TrimSpace(sc.Text()); l != "" {
			if strings.HasPrefix(l, "PRE ") { // ops run one after another before any goroutine exists (scripted sources allowed)
				pre = append(pre, strings.Split(l[4:], "|")...)
				continue
			}
			progs = append(progs, strings.Split(l, "|"))
		}
	}
	for _, o := range pre {
		runOp(strings.Fields(o))
	}
	results := make([][]string, len(progs))
	var start, done sync.WaitGroup
	start.Add(1)
	for i := range progs {
		done.Add(1)
		go func(i int) {
			defer done.Done()
			start.Wait()
			for _, o := range progs[i] {
				fl := strings.Fields(o)
				if fl[0] == "N" {
					results[i] = append(results[i], guard(func() string {
						lang := lang(fl[2])
						s, err := bip39.NewMnemonic(atoi(fl[1]), lang)
						if err != nil {
							return "err " + errClass(err)
						}
						sep := " "
						if lang == bip39.Japanese {
							sep = "　"
						}
						return fmt.Sprintf("ok words=%d %s", len(strings.Split(s, sep)), hx([]byte(s)))
					}))
					continue
				}
				results[i] = append(results[i], runOp(fl))
			}
		}(i)
	}
	start.Done()
	done.Wait()
	for _, r := range results {
		fmt.Println(strings.Join(r, " | "))
	}
}
