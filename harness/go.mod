module verif/harness

go 1.21

require (
	github.com/islishude/bip39 v0.0.0
	golang.org/x/crypto v0.17.0
	golang.org/x/text v0.14.0
)

replace github.com/islishude/bip39 => /repo
