//go:build verif

package main

import (
	"io"

	"github.com/islishude/bip39"
)

// built with the hooks of /repo on: the randomness source can be scripted
const hooksOn = true

func swapRandSource(r io.Reader) io.Reader { return bip39.VerifSwapRandSource(r) }
