#!/bin/sh
# usage: sweep.sh <lane> <seeds...> : all 17 quick checks on the CLEAN tree of that lane for each VERIF_SEED
k=$1; shift
V=/tmp/lane$k/verif; R=/tmp/lane$k/repo
export VERIF_REPO=$R GOFLAGS=-mod=mod GOPROXY=off GOSUMDB=off GOTOOLCHAIN=local
cd $V || exit 2
git -C $R checkout -- . ; git -C $R clean -fdq
for sd in "$@"; do
  for c in C01 C02 C03 C04 C05 C06 C07 C08 C09 C10 C11 C12 C13 C14 C15 C16 C17; do
    out=$(VERIF_SEED=$sd timeout 1800 python3 check.py $c --tier quick 2>&1)
    echo "seed=$sd $(echo "$out" | grep -E '^(OK|FAIL)' | cut -c1-120) :: violations=$(echo "$out" | grep -c '^VIOLATION')"
    echo "$out" | grep "^VIOLATION"
  done
done
echo "=== sweep lane $k done"
