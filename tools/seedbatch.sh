#!/bin/sh
# usage: tools/seedbatch.sh <seed ids...>   - each seed is run against the quick check of its own property
# (seed id = property id + one letter).  Evidence is saved once and restored at the end; /repo is restored after each seed.
cd "$(dirname "$0")/.." || exit 2
export GOFLAGS=-mod=mod GOPROXY=off GOSUMDB=off GOTOOLCHAIN=local
bak=$(mktemp -d /tmp/evbak.XXXXXX); cp -a evidence/. "$bak"/
for seed in "$@"; do
  p=${seed%?}
  git -C /repo apply "$PWD/seeded/$seed/patch.diff" || { echo "--- $seed : patch does not apply"; continue; }
  out=$(timeout 1500 python3 check.py "$p" --tier quick 2>&1)
  nv=$(echo "$out" | grep -c "^VIOLATION")
  nfi=$(echo "$out" | grep -c "no-failing-input-found")
  echo "--- $seed / $p : violations=$nv no-failing-input-found=$nfi :: $(echo "$out" | grep -E '^(OK|FAIL)' | cut -c1-110)"
  git -C /repo checkout -- . ; git -C /repo clean -fdq
done
rm -rf evidence; mkdir evidence; cp -a "$bak"/. evidence/; rm -rf "$bak"
python3 check.py setup >/dev/null 2>&1
