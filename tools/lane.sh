#!/bin/sh
# usage: lane.sh <k> <seed ids...> : runs each seed against its own property's quick check in lane k (copy of /verif + worktree of /repo)
k=$1; shift
V=/tmp/lane$k/verif; R=/tmp/lane$k/repo
export VERIF_REPO=$R GOFLAGS=-mod=mod GOPROXY=off GOSUMDB=off GOTOOLCHAIN=local
cd $V || exit 2
for seed in "$@"; do
  p=${seed%?}
  git -C $R apply /verif/seeded/$seed/patch.diff 2>/dev/null || { echo "--- $seed : patch does not apply"; continue; }
  out=$(timeout 1800 python3 check.py "$p" --tier quick 2>&1)
  nv=$(echo "$out" | grep -c "^VIOLATION")
  nfi=$(echo "$out" | grep -c "no-failing-input-found")
  echo "--- $seed / $p : violations=$nv no-failing-input-found=$nfi :: $(echo "$out" | grep -E '^(OK|FAIL)' | cut -c1-110)"
  git -C $R checkout -- . ; git -C $R clean -fdq
done
echo "=== lane $k done"
