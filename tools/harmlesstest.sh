#!/bin/sh
# usage: tools/harmlesstest.sh <patch file> <property ids...>   (same as seedtest.sh, for behaviour-preserving rewrites)
cd "$(dirname "$0")/.." || exit 2
patch=$1; shift
export GOFLAGS=-mod=mod GOPROXY=off GOSUMDB=off GOTOOLCHAIN=local
bak=$(mktemp -d /tmp/evbak.XXXXXX); cp -a evidence/. "$bak"/
git -C /repo apply "$PWD/$patch" || { echo "patch does not apply"; exit 2; }
for p in "$@"; do
  echo "--- $patch / $p"
  python3 check.py "$p" --tier quick 2>&1 | grep -E "^(VIOLATION|OK|FAIL)" | head -3
done
git -C /repo checkout -- . ; git -C /repo clean -fdq
rm -rf evidence; mkdir evidence; cp -a "$bak"/. evidence/; rm -rf "$bak"
python3 check.py setup >/dev/null 2>&1
