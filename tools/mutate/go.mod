module mutate

go 1.21
