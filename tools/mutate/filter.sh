#!/bin/sh
# usage: mutfilter.sh <worker> <file-rel-path> : for each mutant of that file: compile + test suite in worktree /tmp/mutw<worker>; print survivors
w=$1; rel=$2
R=/tmp/mutw$w
export GOFLAGS=-mod=mod GOPROXY=off GOSUMDB=off GOTOOLCHAIN=local
dir=/tmp/mutants/$(echo $rel | tr '/' '_')
for m in $dir/m*.go; do
  id=$(basename $m .go)
  cp $m $R/$rel
  if (cd $R && go build ./... >/dev/null 2>&1); then
    if (cd $R && timeout 300 go test -count=1 ./... >/dev/null 2>&1); then echo "SURVIVOR $rel $id $(grep "^${id#m} " $dir/index.txt)"; else echo "killed $rel $id"; fi
  else
    echo "nocompile $rel $id"
  fi
  git -C $R checkout -- . 
done
