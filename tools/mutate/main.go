// mutate: classic first-order mutants of one Go source file (self-test of the checks, DESIGN.md Appendix B).
//
//	mutate <file.go> <outdir>
//
// writes <outdir>/mNNNN.go (the whole file with ONE change) and <outdir>/index.txt (NNNN <line> <description>).
// Operators: binary operator replacement (relational, arithmetic, shift, bitwise, logical), integer literal n -> n+1, n-1, 0,
// condition negation, removal of an expression / assignment / inc-dec statement, `return` of the zero error swapped.
package main

import (
	"bytes"
	"fmt"
	"go/ast"
	"go/parser"
	"go/printer"
	"go/token"
	"os"
	"path/filepath"
	"strconv"
	"strings"
)

var alt = map[token.Token][]token.Token{
	token.LSS: {token.LEQ, token.GTR}, token.LEQ: {token.LSS}, token.GTR: {token.GEQ, token.LSS}, token.GEQ: {token.GTR},
	token.EQL: {token.NEQ}, token.NEQ: {token.EQL},
	token.ADD: {token.SUB}, token.SUB: {token.ADD}, token.MUL: {token.QUO}, token.QUO: {token.MUL, token.REM}, token.REM: {token.QUO},
	token.SHL: {token.SHR}, token.SHR: {token.SHL}, token.AND: {token.OR}, token.OR: {token.AND, token.XOR}, token.AND_NOT: {token.AND},
	token.LAND: {token.LOR}, token.LOR: {token.LAND},
}

var langNames = []string{"ChineseSimplified", "ChineseTraditional", "Czech", "English", "French", "Italian", "Japanese", "Korean", "Spanish", "Portuguese"}

// swapName maps an identifier that names one language's list, once, mapping or constant to the next language's.
func swapName(n string) (string, bool) {
	lower := func(s string) string { return strings.ToLower(s[:1]) + s[1:] }
	for i, l := range langNames {
		nx := langNames[(i+1)%len(langNames)]
		switch n {
		case l:
			return nx, true
		case lower(l) + "Once":
			return lower(nx) + "Once", true
		case lower(l) + "Mapping":
			return lower(nx) + "Mapping", true
		}
	}
	return "", false
}

type mutation struct {
	apply, undo func()
	pos         token.Pos
	desc        string
}

func main() {
	src, outdir := os.Args[1], os.Args[2]
	fset := token.NewFileSet()
	f, err := parser.ParseFile(fset, src, nil, parser.ParseComments)
	if err != nil {
		panic(err)
	}
	var muts []mutation
	add := func(pos token.Pos, desc string, apply, undo func()) {
		muts = append(muts, mutation{apply, undo, pos, desc})
	}
	inTable := func(n ast.Node) bool { // skip the big string tables
		return false
	}
	ast.Inspect(f, func(n ast.Node) bool {
		if n == nil || inTable(n) {
			return true
		}
		switch x := n.(type) {
		case *ast.GenDecl:
			if x.Tok == token.IMPORT {
				return false
			}
		case *ast.CompositeLit:
			if len(x.Elts) > 64 { // word tables
				return false
			}
		case *ast.Ident:
			// identifier swaps between the ten languages: wordlist.X, xOnce, xMapping, and the Language constants
			if to, ok := swapName(x.Name); ok {
				x, old := x, x.Name
				add(x.Pos(), fmt.Sprintf("identifier %s -> %s", old, to), func() { x.Name = to }, func() { x.Name = old })
			}
		case *ast.BinaryExpr:
			for _, a := range alt[x.Op] {
				x, old, a := x, x.Op, a
				add(x.OpPos, fmt.Sprintf("binary %s -> %s", old, a), func() { x.Op = a }, func() { x.Op = old })
			}
		case *ast.BasicLit:
			if x.Kind == token.INT {
				if v, err := strconv.ParseInt(x.Value, 0, 64); err == nil {
					old := x.Value
					for _, nv := range []int64{v + 1, v - 1, 0} {
						if nv == v || nv < 0 {
							continue
						}
						x, nv := x, nv
						add(x.Pos(), fmt.Sprintf("literal %s -> %d", old, nv), func() { x.Value = strconv.FormatInt(nv, 10) }, func() { x.Value = old })
					}
				}
			}
		case *ast.IfStmt:
			x2, old := x, x.Cond
			add(x.Cond.Pos(), "negate if condition", func() { x2.Cond = &ast.UnaryExpr{Op: token.NOT, X: &ast.ParenExpr{X: old}} }, func() { x2.Cond = old })
		case *ast.BlockStmt:
			for i, st := range x.List {
				switch st.(type) {
				case *ast.ExprStmt, *ast.IncDecStmt:
				case *ast.AssignStmt:
					if st.(*ast.AssignStmt).Tok == token.DEFINE {
						continue
					}
				default:
					continue
				}
				x, i, st := x, i, st
				add(st.Pos(), "remove statement", func() { x.List[i] = &ast.EmptyStmt{Semicolon: st.Pos(), Implicit: false} }, func() { x.List[i] = st })
			}
		}
		return true
	})
	os.MkdirAll(outdir, 0o755)
	var idx bytes.Buffer
	for k, m := range muts {
		m.apply()
		var buf bytes.Buffer
		if err := (&printer.Config{Mode: printer.UseSpaces | printer.TabIndent, Tabwidth: 8}).Fprint(&buf, fset, f); err != nil {
			panic(err)
		}
		m.undo()
		name := fmt.Sprintf("m%04d.go", k)
		os.WriteFile(filepath.Join(outdir, name), buf.Bytes(), 0o644)
		fmt.Fprintf(&idx, "%04d %d %s\n", k, fset.Position(m.pos).Line, m.desc)
	}
	os.WriteFile(filepath.Join(outdir, "index.txt"), idx.Bytes(), 0o644)
	fmt.Println(len(muts), "mutants of", src)
}
