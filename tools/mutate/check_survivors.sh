#!/bin/sh
# usage: mutcheck.sh <lane> <survivor list file>   lines: <rel> <id>
k=$1; list=$2
V=/tmp/lane$k/verif; R=/tmp/lane$k/repo
export VERIF_REPO=$R GOFLAGS=-mod=mod GOPROXY=off GOSUMDB=off GOTOOLCHAIN=local
cd $V || exit 2
while read rel id; do
  case $rel in
    bip39.go) checks="C09 C06 C04 C05";;
    entropy.go) checks="C01 C05";;
    mnemonic.go) checks="C03 C02 C15 C14";;
    lang.go) checks="C08 C13 C12";;
    language_string.go) checks="C16 C14";;
    *) checks="C17";;
  esac
  git -C $R checkout -- . ; git -C $R clean -fdq
  cp /tmp/mutants/$(echo $rel | tr '/' '_')/$id.go $R/$rel
  res=""
  for c in $checks; do
    out=$(timeout 1800 python3 check.py $c --tier quick 2>&1)
    nv=$(echo "$out" | grep -c "^VIOLATION"); nfi=$(echo "$out" | grep -c "no-failing-input-found")
    if [ $nv -gt 0 ] && [ $nfi -eq 0 ]; then res="$res $c=INPUT"; break; elif [ $nfi -gt 0 ]; then res="$res $c=nfi"; else res="$res $c=quiet"; fi
  done
  echo "MUT $rel $id ::$res"
  git -C $R checkout -- . ; git -C $R clean -fdq
done < $list
echo "=== mutcheck lane $k done"
