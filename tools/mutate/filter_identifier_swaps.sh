#!/bin/sh
# identifier-swap mutants only: worker w handles ids with (n mod 3) == w-1
w=$1; rel=$2
R=/tmp/mutw$w
export GOFLAGS=-mod=mod GOPROXY=off GOSUMDB=off GOTOOLCHAIN=local
dir=/tmp/mutants2/$(echo $rel | tr '/' '_')
grep identifier $dir/index.txt | while read id line desc; do
  n=$(echo $id | sed 's/^0*//'); n=${n:-0}
  [ $((n % 3)) -eq $((w-1)) ] || continue
  cp $dir/m$id.go $R/$rel
  if (cd $R && go build ./... >/dev/null 2>&1); then
    if (cd $R && timeout 300 go test -count=1 ./... >/dev/null 2>&1); then echo "SURVIVOR $rel m$id $line $desc"; else echo "killed $rel m$id"; fi
  else
    echo "nocompile $rel m$id"
  fi
  git -C $R checkout -- .
done
