#!/bin/sh
# regenerate coq/_CoqProject (file list = what exists now) and coq/Makefile
cd "$(dirname "$0")/../coq" || exit 2
{
  echo "-Q . B39"
  echo "-arg -w -arg -notation-overridden,-deprecated-hint-without-locality,-deprecated-instance-without-locality,-extraction-opaque-accessed,-extraction-reserved-identifier"
  ls Lib/*.v Spec/*.v Gen/*.v Model/*.v Facts/*.v Proofs/*.v Properties/*.v 2>/dev/null | LC_ALL=C sort
} > _CoqProject.new
if ! cmp -s _CoqProject.new _CoqProject || [ ! -f Makefile ]; then
  mv _CoqProject.new _CoqProject
  coq_makefile -f _CoqProject -o Makefile >/dev/null
else
  rm _CoqProject.new
fi
