#!/bin/sh
# usage: tools/harmlessbatch.sh <patch:prop,prop,...> ...   runs quick checks with a behaviour-preserving rewrite applied
cd "$(dirname "$0")/.." || exit 2
export GOFLAGS=-mod=mod GOPROXY=off GOSUMDB=off GOTOOLCHAIN=local
bak=$(mktemp -d /tmp/evbak.XXXXXX); cp -a evidence/. "$bak"/
for spec in "$@"; do
  patch=${spec%%:*}; props=$(echo "${spec#*:}" | tr ',' ' ')
  git -C /repo apply "$PWD/harmless/$patch" || { echo "--- $patch : does not apply"; continue; }
  for p in $props; do
    out=$(timeout 1500 python3 check.py "$p" --tier quick 2>&1)
    echo "--- $patch / $p : violations=$(echo "$out" | grep -c '^VIOLATION') nfi=$(echo "$out" | grep -c 'no-failing-input-found') :: $(echo "$out" | grep -E '^(OK|FAIL)' | cut -c1-90)"
  done
  git -C /repo checkout -- . ; git -C /repo clean -fdq
done
rm -rf evidence; mkdir evidence; cp -a "$bak"/. evidence/; rm -rf "$bak"
python3 check.py setup >/dev/null 2>&1
