#!/usr/bin/env python3
"""Confirm a seeded change (patch.diff + demonstration) in a scratch worktree of /repo:
   1. with the patch the repository builds and its existing test suite passes,
   2. the demonstration FAILS with the patch, 3. and PASSES without it.
   usage: confirm_seed.py <dir with patch.diff and demo*_test.go> ; prints a JSON verdict."""
import glob, json, os, re, shutil, subprocess, sys, tempfile
ENV = dict(os.environ, GOFLAGS="-mod=mod", GOPROXY="off", GOSUMDB="off", GOTOOLCHAIN="local")

def sh(cmd, cwd):
    p = subprocess.run(cmd, cwd=cwd, env=ENV, shell=True, stdout=subprocess.PIPE, stderr=subprocess.STDOUT, text=True, timeout=1800)
    return p.returncode, p.stdout

def main():
    d = os.path.abspath(sys.argv[1])
    demo = sorted(glob.glob(os.path.join(d, "*_test.go")))[0]
    src = open(demo).read()
    m = re.search(r"go test([^\n]*)", src)
    args = m.group(1).strip() if m else "-count=1 ."
    args = args.replace("cd /tmp/seed-C14 &&", "")
    sub = "update-wordlist" if "update-wordlist" in args or "package main" in src else "."
    wt = tempfile.mkdtemp(prefix="confirm-", dir="/tmp")
    os.rmdir(wt)
    out = {"dir": d, "demo_cmd": "go test " + args}
    try:
        rc, o = sh("git -C /repo worktree add -q --detach %s HEAD" % wt, "/")
        assert rc == 0, o
        rc, o = sh("git apply %s" % os.path.join(d, "patch.diff"), wt)
        out["patch_applies"] = rc == 0
        rc, o = sh("go build ./... && go test -vet=off -count=1 ./...", wt)
        out["suite_passes_with_patch"] = rc == 0
        if rc != 0:
            out["suite_output"] = o[-1500:]
        rc2, o2 = sh("go build -tags verif ./... ", wt)
        out["builds_with_hooks"] = rc2 == 0
        dst = os.path.join(wt, sub, "zz_seed_demo_test.go")
        shutil.copy(demo, dst)
        rc, o = sh("go test " + args, wt)
        out["demo_fails_with_patch"] = rc != 0
        out["demo_output_with_patch"] = o[-800:]
        os.remove(dst)
        sh("git checkout -- . && git clean -fdq", wt)
        shutil.copy(demo, dst)
        rc, o = sh("go test " + args, wt)
        out["demo_passes_without_patch"] = rc == 0
        if rc != 0:
            out["demo_output_without_patch"] = o[-800:]
    finally:
        sh("git -C /repo worktree remove --force %s" % wt, "/")
        shutil.rmtree(wt, ignore_errors=True)
    out["confirmed"] = all(out.get(k) for k in ("patch_applies", "suite_passes_with_patch", "demo_fails_with_patch", "demo_passes_without_patch"))
    print(json.dumps(out, indent=1))

if __name__ == "__main__":
    main()
