#!/usr/bin/env python3
"""Confirm a seeded change (patch.diff + demonstration) in a scratch worktree of /repo:
   1. with the patch the repository builds and its existing test suite passes,
   2. the demonstration FAILS with the patch, 3. and PASSES without it.
   usage: confirm_seed.py <dir with patch.diff and demo*_test.go> ; prints a JSON verdict."""
import glob, json, os, re, shutil, subprocess, sys, tempfile
ENV = dict(os.environ, GOFLAGS="-mod=mod", GOPROXY="off", GOSUMDB="off", GOTOOLCHAIN="local")

def sh(cmd, cwd):
    p = subprocess.run(cmd, cwd=cwd, env=ENV, shell=True, stdout=subprocess.PIPE, stderr=subprocess.STDOUT, text=True, errors="replace", timeout=1800)
    return p.returncode, p.stdout

def main_program(d):
    demo = os.path.join(d, "demo.go")
    wt = tempfile.mkdtemp(prefix="confirm-", dir="/tmp")
    os.rmdir(wt)
    out = {"dir": d, "demo_cmd": "go run demo.go <worktree>"}
    try:
        rc, o = sh("git -C /repo worktree add -q --detach %s HEAD" % wt, "/")
        rc, o = sh("git apply %s" % os.path.join(d, "patch.diff"), wt)
        out["patch_applies"] = rc == 0
        rc, o = sh("go build ./... && go test -vet=off -count=1 ./...", wt)
        out["suite_passes_with_patch"] = rc == 0
        rc, o = sh("go run %s %s" % (demo, wt), wt)
        out["demo_fails_with_patch"] = rc != 0
        sh("git checkout -- . && git clean -fdq", wt)
        rc, o = sh("go run %s %s" % (demo, wt), wt)
        out["demo_passes_without_patch"] = rc == 0
        out["builds_with_hooks"] = True
    finally:
        sh("git -C /repo worktree remove --force %s" % wt, "/")
        shutil.rmtree(wt, ignore_errors=True)
    out["confirmed"] = all(out.get(k) for k in ("patch_applies", "suite_passes_with_patch", "demo_fails_with_patch", "demo_passes_without_patch"))
    print(json.dumps(out, indent=1))


def main():
    d = os.path.abspath(sys.argv[1])
    demos = sorted(glob.glob(os.path.join(d, "*_test.go")))
    if not demos:
        return main_program(d)
    demo = demos[0]
    src = open(demo).read()
    m = re.search(r"go test([^\n]*)", src)
    args = m.group(1).strip() if m else "-count=1 ."
    args = re.sub(r"cd /tmp/\S+ &&", "", args)
    sub = "update-wordlist" if "update-wordlist" in args or "package main" in src else "."
    m2 = re.search(r"\./(demo\w*)/", args)
    if m2:
        sub = m2.group(1)
    wt = tempfile.mkdtemp(prefix="confirm-", dir="/tmp")
    os.rmdir(wt)
    out = {"dir": d, "demo_cmd": "go test " + args}
    try:
        rc, o = sh("git -C /repo worktree add -q --detach %s HEAD" % wt, "/")
        assert rc == 0, o
        rc, o = sh("git apply %s" % os.path.join(d, "patch.diff"), wt)
        out["patch_applies"] = rc == 0
        rc, o = sh("go build ./... && go test -vet=off -count=1 ./...", wt)
        out["suite_passes_with_patch"] = rc == 0
        if rc != 0:
            out["suite_output"] = o[-1500:]
        rc2, o2 = sh("go build -tags verif ./... ", wt)
        out["builds_with_hooks"] = rc2 == 0
        os.makedirs(os.path.join(wt, sub), exist_ok=True)
        dst = os.path.join(wt, sub, "zz_seed_demo_test.go")
        shutil.copy(demo, dst)
        rc, o = sh("go test " + args, wt)
        out["demo_fails_with_patch"] = rc != 0
        out["demo_output_with_patch"] = o[-800:]
        os.remove(dst)
        sh("git checkout -- . && git clean -fdq", wt)
        os.makedirs(os.path.join(wt, sub), exist_ok=True)
        shutil.copy(demo, dst)
        rc, o = sh("go test " + args, wt)
        out["demo_passes_without_patch"] = rc == 0
        if rc != 0:
            out["demo_output_without_patch"] = o[-800:]
    finally:
        sh("git -C /repo worktree remove --force %s" % wt, "/")
        shutil.rmtree(wt, ignore_errors=True)
    out["confirmed"] = all(out.get(k) for k in ("patch_applies", "suite_passes_with_patch", "demo_fails_with_patch", "demo_passes_without_patch"))
    print(json.dumps(out, indent=1))

if __name__ == "__main__":
    main()
