#!/usr/bin/env python3
"""Writes MANIFEST.json from the table below (kept in one place so it stays valid)."""
import json, os, sys
ROOT = os.path.dirname(os.path.dirname(os.path.abspath(__file__)))
sys.path.insert(0, os.path.join(ROOT, "engine"))

BASE_NOTE = ("Every property file also carries computed closed-world facts about the current source (callee inventory of the functions it is about; for C12-C14, C16 the public surface and variable inventory). Trusted: Coq 8.16.1 kernel + vm_compute (closed finite facts only, no native_compute); the Go-AST translator tools/go2coq "
             "(regenerates coq/Gen from /repo every run); extraction (ExtrOcamlBasic only) + driver.ml; implrun + engine/*.py. "
             "Modelled, not verified: SHA-256/512, HMAC, PBKDF2, x/text NFKD (contract LC1-LC4, claimed on valid UTF-8; invalid UTF-8 only stays invalid), math/big, io.ReadFull, strings, strconv, sync.Once. "
             "No axioms (Print Assumptions: Closed under the global context).")

P = {
 "C01": ("Theorems C01_encode / C01_shape: for every entropy of a valid length and each declared language the panic-aware Gallina model of NewMnemonicByEntropy returns exactly the specification's BIP39 sentence over the pinned canonical list. Word tables, the list() switch, the gate and the separator literals are regenerated from the Go AST on every run, so the theorem is re-checked against the current source; the hand-transcribed arithmetic body of fromEntropy is tied by differential runs (implementation vs extracted model vs extracted specification) over (position,index) diagonals, every checksum-byte value, bit runs and random entropies.",
         "Coq proof (model = BIP39 spec, all inputs) + translator-regenerated tables/gates + model/impl/spec differential correspondence", "5 C01"),
 "C05": ("Theorems C05_decode / C05_injective / C05_new_injective (through the random path: sources whose first 4n/3 delivered bytes differ never share a mnemonic): the specification's independent decoder (Unicode-whitespace split, canonical index lookup, 11-bit concatenation, checksum dropped) applied to the model's output returns the original entropy, for all valid entropies and the ten languages; needs the computed well-formedness (2048 distinct, separator-free, UTF-8-valid words) of the tables read from the source. The implementation's output is decoded by the extracted decoder on every run, with single-bit flips.",
         "Coq proof (decode . encode = id, all inputs) + computed table facts + differential decode of implementation output", "5 C05"),
 "C09": ("Theorems C09_entropy_accept/_reject, C09_words_reject/_accept, C09_gates, C09_generators_agree (for every int n: NewMnemonic accepts n exactly when NewMnemonicByEntropy accepts a 4n/3-byte entropy): the gate conditions are translated from the Go `if` conditions into Z -> bool functions on every run and proved (lia) to accept exactly 16..32 step 4 and 12..24 step 3 for every integer; the model returns the sentinel errors, leaves the read script untouched on rejection, and a non-empty mnemonic with nil error on acceptance. Differential: all lengths 0..600, nil, 2^k+-1; all counts in [-300,300] and around the extremes of int, with errors.Is and a read counter.",
         "Coq proof over generated gate functions (all integers) + exhaustive small-range sweep of the implementation", "5 C09"),
 "C16": ("Theorems C16_names, C16_supported, C16_other, C16_ten_distinct: for every integer the model of the stringer code (name/index tables and guard regenerated from language_string.go, constants from lang.go) returns the declared identifier or Language(N), never panics; ten distinct non-empty names. Differential: implementation vs model vs spec on all values in a window, powers of two and random int64.",
         "Coq proof over generated stringer tables (all integers) + differential sweep", "5 C16"),
}

P.update({
 "C02": ("Theorems C02_generated, C02_new_mnemonic, C02_all_valid: for every function `lib` meeting the measured contract of norm.NFKD.String, every valid entropy (and every read script delivering enough bytes) and each declared language, the model of CheckMnemonic/IsMnemonicValid accepts the model generator's output; more generally every sentence of 12..24 (step 3) canonical words with a correct checksum joined by U+0020 or U+3000 is accepted, whatever the entropy bits. Rests on CheckMnemonic_spec (the validator decides the specification's classifier, proved over all strings, incl. the left-padding arithmetic that defect F1 broke), computed table facts and the NFKD join lemma. Differential: valid sentences with 0..8 leading zero bytes, every list word at rotating positions, generator output fed back.",
         "Coq proof (validator = spec classifier; all valid sentences accepted) + differential correspondence on generated and crafted valid sentences", "5 C02"),
 "C03": ("Theorems C03_sound, C03_exact, C03_iff, C03_unsupported, C03_count: acceptance implies that the Unicode-whitespace tokens of the NFKD form are 12..24 canonical words with a correct checksum - for every string and every lib meeting the contract (a non-xsafe string is rejected because U+034F cannot occur in a list word); IsMnemonicValid <-> nil; nil maps accept nothing; for any fixed prefix exactly 2^(11-n/3) of the 2048 last words are accepted (proved by a counting argument with the hash abstract, not enumeration); C03_exact: a string is accepted iff its NFKD form is the U+0020-joined sentence of some valid entropy. Differential: damaged sentences, substitutions, all 2048 last words of sample prefixes (set and count vs the specification), membership probed by volume (millions of pseudo-random tokens), affix substitutions, histories of validator calls in one single-P process.",
         "Coq proof (acceptance => valid sentence, exact accept count) + differential search with full last-word sweeps", "5 C03"),
 "C06": ("Theorems C06_newmnemonic, C06_read_full, C06_takes_exactly / C06_read_full_conserves (conservation: buffer returned ++ what the source still holds = what it held before, so exactly the encoded bytes leave the source, nothing is skipped or read ahead; a rejected count takes nothing): for every read script (any fragmentation, zero-length reads, any error kind at any point, bytes alongside or not) the model of NewMnemonic (io.ReadAtLeast transcribed) returns the BIP39 encoding of the first 4n/3 delivered bytes with n words, or the empty string and the reader's error when fewer are delivered - by induction over the script. Differential through the verif swap hook: every failure point x kind x with/without bytes, 2-fragmentations, random fragmentations, bytewise and over-long readers; io.ReadFull itself against the transcription.",
         "Coq proof by induction over read scripts + fault enumeration of the implementation through the swap hook", "5 C06"),
 "C10": ("Theorems C10_same_nfkd, C10_valid_spellings, C10_nfkd_idempotent, C10_normalised_form: for every lib meeting the contract and every Language value, two valid UTF-8 strings with equal NFKD forms get the same verdict (inside xsafe even the same error); every spelling whose NFKD form is a valid sentence is accepted; NFKD (UAX #15 over the pinned table) is proved idempotent on valid UTF-8, so a string and its NFKD form are validated alike. The Gallina NFKD (UAX #15 over the pinned Unicode 15 table) is compared with norm.NFKD.String by the K stream. Differential: every list word in NFC/NFD/NFKC/full-width inside sentences, six separators that NFKD maps to U+0020, arbitrary Unicode in other normal forms.",
         "Coq proof over an explicit library contract + differential correspondence on equivalent spellings", "5 C10"),
 "C15": ("Theorems C15_classification, C15_count, C15_outside_xsafe, C15_nil_only_valid: the model's result is the specification's classifier (count -> ErrWordLen, else first unknown token and its position, else checksum -> ErrChecksumIncorrect, else nil) on the tokens of the NFKD form, for all xsafe strings; ErrWordLen for every string with a wrong count; unknown-word error outside xsafe. Sentinels and gate are regenerated from the source. Differential: single-defect sentences per language x count, errors.Is against each sentinel, token and position parsed from the message.",
         "Coq proof (validator = spec classifier) + differential correspondence on single-defect sentences", "5 C15"),
})

P.update({
 "C08": ("Theorems C08_lists, C08_inverse, C08_inverse_only, C08_upstream_digest, C08_ten_languages: the ten tables read from internal/wordlist/*.go by the translator on this run equal the pinned canonical tables byte for byte and in order, are 2048 pairwise distinct non-empty valid-UTF-8 whitespace-free NFKD-stable words (finite domain 10 x 2048, enumerated completely by vm_compute, bound in the statement), list() selects each language's own table, mapping() inverts it; the pinned tables have the upstream SHA-256 digests (recomputed in Coq). Differential: all 2048 indices per language observed through NewMnemonicByEntropy, every word validated inside a sentence.",
         "Coq proof by complete enumeration of generated tables + exhaustive API observation (10 x 2048)", "5 C08"),
 "C13": ("Theorems C13_history_free, C13_any_reachable_state, C13_source_facts: for every finite history of the six entry points with any arguments and any normaliser, the once/maps state machine interpreted from the generated mapping() table returns what the history-free functions return (invariant: every built map is pointwise the index map of its own table); rests on computed facts about the current source: each case makes/fills/returns one map under its own once, and the package-level variables are a closed world where only those maps are written, inside once.Do. Not shown by a pure model: in-place mutation of caller memory - the harness passes entropy as a sub-slice with spare capacity and re-inspects caller-owned buffers, returned seeds and strings after later calls, in fresh processes.",
         "Coq proof by induction over histories with a state invariant + computed inventory facts + history differential in fresh processes", "5 C13"),
 "C14": ("Theorems C14_never_panics (+ per entry point): the model makes every table index, slice bound, big.Int division (incl. the uint wrap of 1<<(8-cs)), make() length and nil-map write an explicit Panic outcome and no Panic is reachable for any arguments (all byte strings, all of Z for Language and word counts, all read scripts) in any history, for any normaliser. Partial: panics or hangs inside dependencies and resource exhaustion are not expressible in the model; supported by a malformed stream under recover and a wall-clock limit (all Language values in a window and at int extremes, nil/short/oversized entropy, invalid UTF-8, combining runs, inputs up to 4 MiB).",
         "Coq proof of totality of a panic-aware model (all inputs, all histories) + malformed-input sweep under recover/timeout", "5 C14"),
})

P.update({
 "C07": ("Theorems C07_default_source, C07_unswapped, C07_function_of_bytes, C07_encoding_of_bytes: computed on the inventory regenerated from the source - the reader given to io.ReadFull is the package-level source variable, initialised to crypto/rand.Reader, with no write site in a guard-off build, no init(), no math/rand import, no environment reads; and NewMnemonic's result is the encoding of the first 4n/3 delivered bytes, hence a function of the source's bytes only. Partial: that crypto/rand.Reader is the OS CSPRNG and that no content-dependent branch exists for the default source cannot be shown by a model; supported by the harness (identity of the pre-swap source in a fresh process, also under every environment variable the package reads; every first/last byte value through a scripted source; distinctness and byte-frequency of default output).",
         "Coq proof over the generated variable inventory + NewMnemonic determinism theorem + identity/statistics harness", "5 C07"),
})

P.update({
 "C04": ("Theorems C04_seed, C04_salt_prefix, C04_length, C04_no_state: for every normaliser meeting the measured contract and ALL valid UTF-8 strings m, p whose NFKD forms have no run of more than 30 modifiers (xsafe), the model of MnemonicToSeed equals PBKDF2-HMAC-SHA512 (executable Gallina SHA-512/HMAC/PBKDF2 per FIPS 180-4, RFC 2104, RFC 8018) over NFKD(m) and \"mnemonic\"||NFKD(p) with the iteration count, key length, hash and prefix literals regenerated from the source; NFKD(\"mnemonic\"+p) = \"mnemonic\"||NFKD(p) also for passphrases starting with combining marks. Outside xsafe the statement is false of the real dependency: known finding F3 (witness replayed every run, KNOWN-FINDING line). Differential: implementation seed vs hashlib PBKDF2 over the (password, salt) derived with the Coq NFKD; key lengths around the 128-byte block; the Gallina crypto vs the Go libraries; a full 2048-iteration seed evaluated by the extraction; K stream for the contract.",
         "Coq proof over an explicit library contract (all inputs in the stated domain) + differential correspondence; known finding outside the domain", "5 C04"),
 "C11": ("Theorems C11_same_nfkd, C11_separators: equal NFKD forms of both components give equal seeds inside xsafe, for every normaliser meeting the contract; U+3000 vs U+0020 between list words in particular. Outside xsafe the real dependency violates it: known finding F3 (witness pair replayed every run). Differential: every list word in its other normal forms inside sentences, six equivalent separators, passphrases from compatibility/combining-heavy pools, equality of NFKD forms decided by the Coq NFKD.",
         "Coq proof over an explicit library contract + differential correspondence on equivalent spellings; known finding outside the domain", "5 C11"),
})

P.update({
 "C12": ("Theorems C12_race_free, C12_reads_own_map, C12_source_facts: for any number of threads running any lists of exported calls, in every interleaving from a cold start, under the Go memory model's contract for sync.Once, any two conflicting accesses to a package-level variable by different threads are ordered write < once-completion < once-return < read (10-clause invariant preserved by the five step rules), and every lookup finds the completed map of its own language as in sequential use; instantiated with the mapping() table regenerated from lang.go (one once and one map per case, computed) and the closed-world variable inventory (nothing else is ever written). Partial: that the Go runtime implements the sync.Once contract, and races inside dependencies, are outside any Gallina model; exhibited by the harness: implrun built with -race, fresh process per run, goroutines released by a barrier onto a cold package, results compared with each call run alone.",
         "Coq proof of the synchronisation discipline over all interleavings + generated-table facts + race-detector runs from cold start", "5 C12"),
})

P.update({
 "C17": ("Theorems C17_faithful, C17_canonical, C17_langs: the update-wordlist template is parsed with text/template/parse by the translator on every run; a Gallina interpreter of that parse tree (html/template's text-context escaper modelled byte for byte) applied to strings.Split(src, \"\\n\") renders a file that an independent Gallina reader of Go list literals (Go lexical rules on this shape: semicolon insertion, interpreted string literals, whole-file UTF-8 validity, no BOM) reads back as exactly the non-empty input lines in order under the given variable - for every input whose lines are valid UTF-8 without quote, backslash, markup characters, NUL, CR or BOM (a superset of letters and combining marks), any number of lines, blank lines anywhere, with or without trailing newline; the file->variable table is the expected bijection; rendering the ten pinned canonical files yields exactly the package's lists (C17_canonical). Differential: the real tool built with -tags verif runs against a loopback server on the canonical files and random word files over all scripts; written bytes = model rendering; go/parser's list = model reader's list = non-empty input lines; the files compile; canonical input reproduces the committed lists.",
         "Coq proof over the translator-parsed template (all inputs in the domain) + differential runs of the real tool against a loopback server", "5 C17"),
})

NOT_YET = {}

def main():
    props = [json.loads(l) for l in open(os.path.join(ROOT, "properties.jsonl"))]
    checks, na = [], []
    for p in props:
        pid = p["id"]
        if pid in P:
            text, tech, ref = P[pid]
            checks.append({
                "property_id": pid,
                "quick_cmd": "python3 check.py %s --tier quick" % pid,
                "thorough_cmd": "python3 check.py %s --tier thorough" % pid,
                "evidence_file": "evidence/%s.json" % pid,
                "replay_cmd_template": "python3 check.py replay {path}",
                "engine": "coq-b39",
                "level_claimed": {"category": "proof", "text": text, "design_ref": "DESIGN.md section " + ref},
                "level_note": BASE_NOTE,
                "technique": tech,
            })
        else:
            na.append({"property_id": pid, "reason": NOT_YET.get(pid, "not claimed in this snapshot: the Coq development for this property is still being built (the technique applies; see DESIGN.md section 5)")})
    m = {
        "version": 1,
        "setup_cmd": "python3 check.py setup",
        "hooks": {"guard": "verif (Go build tag)", "enable": "go build -tags verif (harness/implrun is built from /repo's working tree with the tag on)",
                  "baseline_off_cmd": "cd /repo && go build ./... && go test -vet=off -count=1 ./...",
                  "source_commits": ["ebe586e", "c2be5f6"], "add_only": True},
        "engines": [{"name": "coq-b39", "path": "coq/", "serves_properties": sorted(P),
                     "kind_free_text": "Coq 8.16.1 development (spec + panic-aware model + generated facts + proofs), Go-AST translator, extracted OCaml model/spec runner, Go implementation runner, Python driver"}],
        "checks": checks,
        "notes": "One entry point: check.py <id> --tier quick|thorough. Every run re-translates /repo, rebuilds the affected .vo files (full build, no -vos), rebuilds the harness with -tags verif, then runs correspondence and search. Genuine defects found at the pinned commit were repaired by fix: commits (see known_findings.txt).",
        "not_applicable": na,
    }
    with open(os.path.join(ROOT, "MANIFEST.json"), "w") as f:
        json.dump(m, f, indent=1)
    print("MANIFEST.json: %d checks, %d not claimed" % (len(checks), len(na)))

if __name__ == "__main__":
    main()
