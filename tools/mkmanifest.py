#!/usr/bin/env python3
"""Writes MANIFEST.json from the table below (kept in one place so it stays valid)."""
import json, os, sys
ROOT = os.path.dirname(os.path.dirname(os.path.abspath(__file__)))
sys.path.insert(0, os.path.join(ROOT, "engine"))

BASE_NOTE = ("Trusted: Coq 8.16.1 kernel + vm_compute (closed finite facts only, no native_compute); the Go-AST translator tools/go2coq "
             "(regenerates coq/Gen from /repo every run); extraction (ExtrOcamlBasic only) + driver.ml; implrun + engine/*.py. "
             "Modelled, not verified: SHA-256/512, HMAC, PBKDF2, x/text NFKD (contract LC1-LC3), math/big, io.ReadFull, strings, strconv, sync.Once. "
             "No axioms (Print Assumptions: Closed under the global context).")

P = {
 "C01": ("Theorems C01_encode / C01_shape: for every entropy of a valid length and each declared language the panic-aware Gallina model of NewMnemonicByEntropy returns exactly the specification's BIP39 sentence over the pinned canonical list. Word tables, the list() switch, the gate and the separator literals are regenerated from the Go AST on every run, so the theorem is re-checked against the current source; the hand-transcribed arithmetic body of fromEntropy is tied by differential runs (implementation vs extracted model vs extracted specification) over (position,index) diagonals, every checksum-byte value, bit runs and random entropies.",
         "Coq proof (model = BIP39 spec, all inputs) + translator-regenerated tables/gates + model/impl/spec differential correspondence", "5 C01"),
 "C05": ("Theorems C05_decode / C05_injective: the specification's independent decoder (Unicode-whitespace split, canonical index lookup, 11-bit concatenation, checksum dropped) applied to the model's output returns the original entropy, for all valid entropies and the ten languages; needs the computed well-formedness (2048 distinct, separator-free, UTF-8-valid words) of the tables read from the source. The implementation's output is decoded by the extracted decoder on every run, with single-bit flips.",
         "Coq proof (decode . encode = id, all inputs) + computed table facts + differential decode of implementation output", "5 C05"),
 "C09": ("Theorems C09_entropy_accept/_reject, C09_words_reject/_accept, C09_gates: the gate conditions are translated from the Go `if` conditions into Z -> bool functions on every run and proved (lia) to accept exactly 16..32 step 4 and 12..24 step 3 for every integer; the model returns the sentinel errors, leaves the read script untouched on rejection, and a non-empty mnemonic with nil error on acceptance. Differential: all lengths 0..600, nil, 2^k+-1; all counts in [-300,300] and around the extremes of int, with errors.Is and a read counter.",
         "Coq proof over generated gate functions (all integers) + exhaustive small-range sweep of the implementation", "5 C09"),
 "C16": ("Theorems C16_names, C16_supported, C16_other, C16_ten_distinct: for every integer the model of the stringer code (name/index tables and guard regenerated from language_string.go, constants from lang.go) returns the declared identifier or Language(N), never panics; ten distinct non-empty names. Differential: implementation vs model vs spec on all values in a window, powers of two and random int64.",
         "Coq proof over generated stringer tables (all integers) + differential sweep", "5 C16"),
}

NOT_YET = {}

def main():
    props = [json.loads(l) for l in open(os.path.join(ROOT, "properties.jsonl"))]
    checks, na = [], []
    for p in props:
        pid = p["id"]
        if pid in P:
            text, tech, ref = P[pid]
            checks.append({
                "property_id": pid,
                "quick_cmd": "python3 check.py %s --tier quick" % pid,
                "thorough_cmd": "python3 check.py %s --tier thorough" % pid,
                "evidence_file": "evidence/%s.json" % pid,
                "replay_cmd_template": "python3 check.py replay {path}",
                "engine": "coq-b39",
                "level_claimed": {"category": "proof", "text": text, "design_ref": "DESIGN.md section " + ref},
                "level_note": BASE_NOTE,
                "technique": tech,
            })
        else:
            na.append({"property_id": pid, "reason": NOT_YET.get(pid, "not claimed in this snapshot: the Coq development for this property is still being built (the technique applies; see DESIGN.md section 5)")})
    m = {
        "version": 1,
        "setup_cmd": "python3 check.py setup",
        "hooks": {"guard": "verif (Go build tag)", "enable": "go build -tags verif (harness/implrun is built from /repo's working tree with the tag on)",
                  "baseline_off_cmd": "cd /repo && go build ./... && go test -vet=off -count=1 ./...",
                  "source_commits": ["ebe586e", "c2be5f6"], "add_only": True},
        "engines": [{"name": "coq-b39", "path": "coq/", "serves_properties": sorted(P),
                     "kind_free_text": "Coq 8.16.1 development (spec + panic-aware model + generated facts + proofs), Go-AST translator, extracted OCaml model/spec runner, Go implementation runner, Python driver"}],
        "checks": checks,
        "notes": "One entry point: check.py <id> --tier quick|thorough. Every run re-translates /repo, rebuilds the affected .vo files (full build, no -vos), rebuilds the harness with -tags verif, then runs correspondence and search. Genuine defects found at the pinned commit were repaired by fix: commits (see known_findings.txt).",
        "not_applicable": na,
    }
    with open(os.path.join(ROOT, "MANIFEST.json"), "w") as f:
        json.dump(m, f, indent=1)
    print("MANIFEST.json: %d checks, %d not claimed" % (len(checks), len(na)))

if __name__ == "__main__":
    main()
