#!/bin/sh
# run every registered quick (or $1 = thorough) check on the current tree; evidence is rewritten
cd "$(dirname "$0")/.." || exit 2
export GOFLAGS=-mod=mod GOPROXY=off GOSUMDB=off GOTOOLCHAIN=local
tier=${1:-quick}
for p in $(python3 -c "
import json; print(' '.join(c['property_id'] for c in json.load(open('MANIFEST.json'))['checks']))"); do
  python3 check.py "$p" --tier "$tier" | grep -E "^(VIOLATION|KNOWN-FINDING|OK|FAIL)" | cut -c1-220
done
