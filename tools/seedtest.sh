#!/bin/sh
# usage: tools/seedtest.sh <seed id, e.g. C01a> <property ids to check...>
# applies seeded/<id>/patch.diff to /repo, runs the quick checks, undoes the patch and
# restores the evidence files (evidence must come from runs on the unchanged tree).
cd "$(dirname "$0")/.." || exit 2
seed=$1; shift
export GOFLAGS=-mod=mod GOPROXY=off GOSUMDB=off GOTOOLCHAIN=local
bak=$(mktemp -d /tmp/evbak.XXXXXX); cp -a evidence/. "$bak"/
git -C /repo apply "$PWD/seeded/$seed/patch.diff" || { echo "patch does not apply"; exit 2; }
for p in "$@"; do
  out=$(timeout 1500 python3 check.py "$p" --tier quick 2>&1)
  nv=$(echo "$out" | grep -c "^VIOLATION")
  nfi=$(echo "$out" | grep -c "no-failing-input-found")
  echo "--- $seed / $p : violations=$nv no-failing-input-found=$nfi :: $(echo "$out" | grep -E '^(OK|FAIL)' | cut -c1-150)"
  if [ "$nv" -gt 0 ] && [ "$nfi" -eq 0 ]; then
    f=$(echo "$out" | grep "^VIOLATION" | head -1 | sed 's/.*replay=//'); python3 -c "
import json,sys
d=json.load(open('$f')); print('    why:', str(d.get('why'))[:160]); print('    case:', str(d.get('case'))[:160])"
  fi
done
git -C /repo checkout -- . ; git -C /repo clean -fdq
git -C /repo status --short
rm -rf evidence; mkdir evidence; cp -a "$bak"/. evidence/; rm -rf "$bak"
python3 check.py setup >/dev/null 2>&1
