#!/bin/sh
# usage: tools/seedtest.sh <seed id, e.g. C01a> <property ids to check...>
# applies seeded/<id>/patch.diff to /repo, runs the quick checks, undoes the patch and
# restores the evidence files (evidence must come from runs on the unchanged tree).
cd "$(dirname "$0")/.." || exit 2
seed=$1; shift
export GOFLAGS=-mod=mod GOPROXY=off GOSUMDB=off GOTOOLCHAIN=local
bak=$(mktemp -d /tmp/evbak.XXXXXX); cp -a evidence/. "$bak"/
git -C /repo apply "$PWD/seeded/$seed/patch.diff" || { echo "patch does not apply"; exit 2; }
for p in "$@"; do
  echo "--- $seed / $p"
  python3 check.py "$p" --tier quick 2>&1 | grep -E "^(VIOLATION|KNOWN-FINDING|OK|FAIL)" | head -8
done
git -C /repo checkout -- . ; git -C /repo clean -fdq
git -C /repo status --short
rm -rf evidence; mkdir evidence; cp -a "$bak"/. evidence/; rm -rf "$bak"
python3 check.py setup >/dev/null 2>&1
