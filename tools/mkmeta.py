import json,sys,os,re,glob
# usage: mkmeta.py <letter> <round> <lane logs...> : writes seeded/C??<letter>/meta.json from notes.txt, /tmp/confirm-<id>.json and the lane logs
LETTER,ROUND=sys.argv[1],int(sys.argv[2])
logs=''.join(open(f).read() for f in sys.argv[3:] if os.path.exists(f))
for d in sorted(glob.glob('/verif/seeded/C??'+LETTER)):
    sid=os.path.basename(d); c='/tmp/confirm-%s.json'%sid
    if not os.path.exists(c): continue
    txt=open(c).read(); cj=json.loads(txt[txt.index('{'):])
    notes=open(d+'/notes.txt').read() if os.path.exists(d+'/notes.txt') else ''
    m=re.search(r'--- %s / \S+ : violations=(\d+) no-failing-input-found=(\d+)'%sid, logs)
    out=None
    if m:
        v,n=int(m.group(1)),int(m.group(2))
        out='MISSED (exit 0)' if v==0 else ('no-failing-input-found' if n>0 and v==n else 'caught')
    meta={"seed_id":sid,"round":ROUND,"breaks_property":sid[:3],
      "origin":"independent sub-agent given only the property text, a scratch worktree and a one-line hint at the flavour wanted (something specific needed to manifest); nothing from /verif",
      "needs_to_manifest":notes.strip(),
      "confirmed_by":"tools/confirm_seed.py in a scratch worktree of /repo (removed afterwards)",
      "what_i_ran":{"suite":"go build ./... && go test -vet=off -count=1 ./...  (with patch): pass=%s"%cj.get('suite_passes_with_patch'),
                    "demo":cj.get('demo_cmd'),"demo_fails_with_patch":cj.get('demo_fails_with_patch'),"demo_passes_without_patch":cj.get('demo_passes_without_patch')},
      "first_run_outcome":out,"detected_by":None}
    old=d+'/meta.json'
    if os.path.exists(old):
        o=json.load(open(old))
        for k in ('first_run_outcome','detected_by','strengthening'):
            if o.get(k) and k!='first_run_outcome': meta[k]=o[k]
        if o.get('first_run_outcome'): meta['first_run_outcome']=o['first_run_outcome']
    json.dump(meta,open(old,'w'),indent=1,ensure_ascii=False)
    print(sid,meta['first_run_outcome'])
