"""The check protocol shared by all properties (DESIGN.md section 6):
   proof signal  +  correspondence (implementation vs extracted model)  +  search
   (implementation vs extracted specification)  ->  classification, replay, evidence."""
import json, os, sys, time
import common

TRUSTED_BASE = [
    "Coq 8.16.1 kernel and its vm_compute evaluator (closed finite facts only); no native_compute",
    "tools/go2coq: Go-AST translator that regenerates coq/Gen/*.v from /repo on every run",
    "extraction with ExtrOcamlBasic only + OCaml 4.13.1 + coq/Extract/driver.ml (hand-written glue)",
    "harness/implrun (Go, built from /repo's working tree with -tags verif) and engine/*.py comparison code",
    "modelled, not verified: crypto/sha256, crypto/sha512, crypto/hmac, x/crypto/pbkdf2, x/text NFKD (contract LC1-LC4: UAX #15 NFKD on valid UTF-8 without runs of more than 30 modifiers, U+034F present otherwise, 0x20 count kept; invalid UTF-8 stays invalid), math/big, io.ReadFull, strings, strconv, sync.Once",
    "pinned data: canon/*.txt (anchored by upstream SHA-256 digests), ucd/nfkd_xtext.txt (Unicode 15.0.0 dump of x/text)",
]


class Result:
    def __init__(self, pid):
        self.pid = pid
        self.evaluations = 0
        self.nontrivial = set()
        self.samples = []
        self.dist = {}
        self.violations = []     # dicts: stream, case, impl, model, spec, why
        self.corr = []           # model/implementation disagreements not contradicting the property
        self.known = {}          # finding id -> example
        self.streams = {}
        self.notes = []
        self.exhaustive = None

    def merge(self, o):
        self.evaluations += o.evaluations
        self.nontrivial |= o.nontrivial
        for k, v in o.dist.items():
            self.dist[k] = self.dist.get(k, 0) + v
        for k, v in o.streams.items():
            self.streams[k] = self.streams.get(k, 0) + v
        self.violations += o.violations
        self.corr += o.corr
        self.known.update(o.known)
        self.notes += [n for n in o.notes if n not in self.notes]

    def count(self, key, n=1):
        self.dist[key] = self.dist.get(key, 0) + n

    def sample(self, x, limit=6):
        if len(self.samples) < limit:
            self.samples.append(x)

    def violation(self, **kw):
        if len(self.violations) < 50:
            self.violations.append(kw)

    def corr_break(self, **kw):
        if len(self.corr) < 50:
            self.corr.append(kw)


def proof_status(pid, st):
    rel = "Properties/%s.v" % pid
    path = os.path.join(common.COQ, rel)
    out = {"file": rel, "ok": False, "failed": {}, "obligations": 0, "discharged": 0, "assumptions": "", "theorems": []}
    if not os.path.exists(path):
        out["reason"] = "no property file"
        return out
    cone = common.dep_cone(rel)
    failed = {f: m for f, m in st["failed"].items() if f in cone}
    total, names = common.count_obligations(cone)
    out["obligations"] = total
    out["cone_files"] = len(cone)
    out["theorems"] = [n.split(":", 1)[1] for n in names if n.startswith(rel + ":")]
    if failed or not common.vo_up_to_date(rel):
        # which statements are in files that did not build
        bad_files = set(failed)
        notbuilt = [f for f in cone if not os.path.exists(os.path.join(common.COQ, f + "o"))]
        bad = [n for n in names if n.split(":", 1)[0] in bad_files or n.split(":", 1)[0] in notbuilt]
        out["failed"] = failed or {rel: "not up to date (a dependency failed to build)"}
        out["discharged"] = total - len(bad)
        return out
    rc, text = common.print_assumptions(rel)
    out["assumptions"] = text
    if rc != 0:
        out["failed"] = {rel: text[-600:]}
        return out
    out["ok"] = True
    out["discharged"] = total
    return out


def known_findings_for(pid):
    return [k for k in common.load_known_findings() if k.get("property") == pid]


def finish(pid, tier, seed, t0, st, proof, res, level="proof", extra_assumptions=()):
    """classify, write replays and evidence, print result lines, return the exit code"""
    lines = []
    exit_code = 0
    replays = []
    n = 0
    for v in res.violations:
        n += 1
        path = common.write_replay(pid, n, dict(v, property=pid, seed=seed, tier=tier,
                                               how_to_replay="python3 check.py replay " + "replays/%s-%d.json" % (pid, n)))
        replays.append(path)
        lines.append("VIOLATION property=%s replay=%s" % (pid, path))
        exit_code = 1
        if n >= 5:
            break
    # a disagreement that falls in a class listed in known_findings.txt for this property is a known finding;
    # the same disagreement without a listing is a violation (the file is read-only at run time)
    listed = known_findings_for(pid)
    for fid, ex in sorted(res.known.items()):
        cls = [w.split("=", 1)[1] for w in fid.split() if w.startswith("class=")]
        if any(l.get("class") in cls for l in listed):
            lines.append("KNOWN-FINDING: property=%s %s" % (pid, fid))
        else:
            n += 1
            path = common.write_replay(pid, n, dict(property=pid, seed=seed, tier=tier, case=ex, why=fid,
                                                   how_to_replay="python3 check.py replay replays/%s-%d.json" % (pid, n)))
            lines.append("VIOLATION property=%s replay=%s" % (pid, path))
            exit_code = 1
    if exit_code == 0 and (not proof["ok"] or res.corr or st.get("translate_error")):
        what = {}
        if not proof["ok"]:
            what["proof"] = {"property_file": proof["file"], "failed": proof["failed"], "theorems": proof["theorems"]}
        if res.corr:
            what["correspondence"] = res.corr[:5]
        if st.get("translate_error"):
            what["translator"] = st["translate_error"][-1500:]
        bad_shapes = [s for s in st.get("shapes", []) if not s.get("ok")]
        if bad_shapes:
            what["unrecognised_source_shapes"] = bad_shapes
        path = common.write_replay(pid, 0, dict(property=pid, seed=seed, tier=tier, no_failing_input_found=True,
                                               broken=what,
                                               note="the property is no longer shown to hold: a proof obligation or the model/implementation correspondence broke, and the search found no input on which the implementation contradicts the property"))
        lines.append("VIOLATION property=%s replay=%s no-failing-input-found" % (pid, path))
        exit_code = 1
    cov = {
        "obligations": proof["obligations"], "discharged": proof["discharged"],
        "checker_cmd": "make -C coq (coq_makefile, full .vo build) ; coqc Properties/%s.v (Print Assumptions)" % pid,
        "trusted_base": TRUSTED_BASE,
        "theorems": proof["theorems"], "print_assumptions": proof["assumptions"][-4000:],
        "proof_ok": proof["ok"], "proof_failed": proof["failed"],
        "evaluations": res.evaluations, "distinct_nontrivial": len(res.nontrivial),
        "rule": "cases are generated by engine/props.py from VERIF_SEED (corpus first); a case is non-trivial when the implementation's projected result is not the early size/length rejection; distinct by case line",
        "samples": res.samples, "input_distribution": res.dist, "streams": res.streams,
        "correspondence_breaks": len(res.corr), "known_findings_observed": sorted(res.known),
        "translator_shapes": st.get("shapes", []), "notes": res.notes,
    }
    if res.exhaustive is not None:
        cov["exhaustive"] = res.exhaustive
    ev = {"property_id": pid, "tier": tier, "seed": seed, "level": level, "coverage": cov,
          "assumptions": list(extra_assumptions) + ["see coverage.trusted_base"],
          "wall_s": round(time.time() - t0, 2), "violations": len(res.violations) if exit_code else 0}
    common.write_evidence(pid, ev)
    for l in lines:
        print(l)
    print("%s %s tier=%s seed=%d proof=%s obligations=%d/%d evaluations=%d nontrivial=%d corr_breaks=%d wall=%.1fs" % (
        "FAIL" if exit_code else "OK", pid, tier, seed, "ok" if proof["ok"] else "BROKEN", proof["discharged"], proof["obligations"],
        res.evaluations, len(res.nontrivial), len(res.corr), time.time() - t0))
    return exit_code
