"""Shared machinery: build (translate -> make -> extract -> implrun), running
the implementation / model / spec on case files, replay and evidence files."""
import fcntl, hashlib, json, os, re, shutil, subprocess, sys, time

ROOT = os.path.dirname(os.path.dirname(os.path.abspath(__file__)))
REPO = os.environ.get("VERIF_REPO", "/repo")
BUILD = os.path.join(ROOT, "build")
COQ = os.path.join(ROOT, "coq")
GOENV = dict(os.environ, GOFLAGS="-mod=mod", GOPROXY="off", GOSUMDB="off", GOTOOLCHAIN="local",
             CGO_ENABLED=os.environ.get("CGO_ENABLED", "1"))
NPROC = min(16, os.cpu_count() or 4)

PROOF_KINDS = r"^(Theorem|Lemma|Example|Fact|Corollary|Proposition|Remark)\s+([A-Za-z0-9_']+)"


def sh(cmd, cwd=None, env=None, timeout=3600, inp=None):
    p = subprocess.run(cmd, cwd=cwd, env=env, timeout=timeout, input=inp,
                       stdout=subprocess.PIPE, stderr=subprocess.STDOUT, text=True)
    return p.returncode, p.stdout


def file_hash(paths):
    h = hashlib.sha256()
    for p in sorted(paths):
        h.update(p.encode())
        try:
            with open(p, "rb") as f:
                h.update(f.read())
        except OSError:
            h.update(b"<missing>")
    return h.hexdigest()


def tree_files(base, exts, skip_dirs=()):
    out = []
    for d, dirs, files in os.walk(base):
        dirs[:] = [x for x in dirs if x not in skip_dirs and not x.startswith(".git")]
        for f in files:
            if f.endswith(exts):
                out.append(os.path.join(d, f))
    return out


class Lock:
    def __enter__(self):
        os.makedirs(BUILD, exist_ok=True)
        self.f = open(os.path.join(BUILD, ".lock"), "w")
        fcntl.flock(self.f, fcntl.LOCK_EX)
        return self

    def __exit__(self, *a):
        fcntl.flock(self.f, fcntl.LOCK_UN)
        self.f.close()


def newer(src_files, target):
    if not os.path.exists(target):
        return True
    t = os.path.getmtime(target)
    return any(os.path.getmtime(s) > t for s in src_files)


def prepare(verbose=True):
    """Bring everything up to date with /repo's working tree. Returns a status dict:
    {ok_files: set of built .vo, failed: {file: message}, shapes: [...], log: str, seconds: float}"""
    t0 = time.time()
    log = []
    with Lock():
        os.makedirs(BUILD, exist_ok=True)
        # 1. pinned data
        rc, out = sh([sys.executable, os.path.join(ROOT, "tools", "gen_pinned.py")])
        if rc != 0:
            raise SystemExit("gen_pinned failed: " + out)
        # 2. translator binary
        g2c = os.path.join(BUILD, "go2coq")
        if newer(tree_files(os.path.join(ROOT, "tools", "go2coq"), (".go", ".mod")), g2c):
            rc, out = sh(["go", "build", "-o", g2c, "."], cwd=os.path.join(ROOT, "tools", "go2coq"), env=GOENV)
            if rc != 0:
                raise SystemExit("building go2coq failed:\n" + out)
        # 3. translate the current source
        summ = os.path.join(BUILD, "gen_summary.json")
        rc, out = sh([g2c, "-repo", REPO, "-out", os.path.join(COQ, "Gen"), "-summary", summ])
        translate_error = None
        if rc != 0:
            translate_error = out.strip()
            log.append("go2coq failed: " + out)
        shapes = []
        try:
            shapes = json.load(open(summ))["shapes"]
        except Exception:
            pass
        # 3b. per-table fact files for whatever tables the translator emitted
        rc, out = sh([sys.executable, os.path.join(ROOT, "tools", "gen_facts.py")])
        if rc != 0:
            log.append("gen_facts failed: " + out)
        # 4. coq build (full .vo build, never -vos)
        sh([os.path.join(ROOT, "tools", "mkproject.sh")])
        rc, out = sh(["make", "-k", "-j%d" % NPROC], cwd=COQ, timeout=3000)
        log.append(out)
        failed = {}
        for m in re.finditer(r'File "\./([^"]+)", line (\d+), characters [^\n]*\n((?:(?!File "|make|COQC).*\n)*)', out):
            f, line, msg = m.group(1), m.group(2), m.group(3)
            if "Error" in msg and f not in failed:
                failed[f] = "line %s: %s" % (line, " ".join(msg.split())[:600])
        # 5. extraction + modelrun
        mr = os.path.join(BUILD, "modelrun")
        ext_dir = os.path.join(COQ, "Extract")
        # everything Extract.v can depend on: the libraries, the specification, the model and the GENERATED files
        must = [os.path.join(COQ, p) for p in ("Model/State.vo", "Model/Model.vo", "Model/ToolModel.vo", "Spec/Bip39Spec.vo")]
        model_ok = all(os.path.exists(v) for v in must)
        need_vo = [v for d in ("Lib", "Spec", "Gen", "Model") for v in tree_files(os.path.join(COQ, d), (".vo",))]
        if model_ok and newer(need_vo + [os.path.join(ext_dir, "Extract.v"), os.path.join(ext_dir, "driver.ml")], mr):
            rc, out = sh(["coqc", "-Q", COQ, "B39", "-w", "-extraction-opaque-accessed,-extraction-reserved-identifier", "Extract.v"], cwd=ext_dir, timeout=900)
            if rc != 0:
                log.append("extraction failed:\n" + out)
                model_ok = False
            else:
                rc, out = sh(["ocamlfind", "ocamlopt", "-package", "unix", "-linkpkg", "-w", "-a", "model.mli", "model.ml", "driver.ml", "-o", mr + ".new"], cwd=ext_dir, timeout=900)
                if rc != 0:
                    log.append("ocaml build failed:\n" + out)
                    model_ok = False
                else:
                    os.replace(mr + ".new", mr)
        # 6. implementation harness, from the working tree, hooks on
        hdir = os.path.join(ROOT, "harness")
        shutil.copyfile(os.path.join(REPO, "go.sum"), os.path.join(hdir, "go.sum"))
        gm = open(os.path.join(hdir, "go.mod")).read()
        gm2 = re.sub(r"replace github.com/islishude/bip39 => .*", "replace github.com/islishude/bip39 => " + REPO, gm)
        if gm2 != gm:
            open(os.path.join(hdir, "go.mod"), "w").write(gm2)
        # the same harness against the PLAIN build of the package (no tag: what users compile); ops that need the hook are unavailable there
        sh(["go", "build", "-o", os.path.join(BUILD, "implrun_plain"), "."], cwd=hdir, env=GOENV, timeout=900)
        rc, out = sh(["go", "build", "-tags", "verif", "-o", os.path.join(BUILD, "implrun"), "."], cwd=hdir, env=GOENV, timeout=900)
        impl_ok = rc == 0
        if not impl_ok:
            log.append("building implrun failed:\n" + out)
    st = {"failed": failed, "shapes": shapes, "log": "\n".join(log), "seconds": time.time() - t0,
          "model_ok": model_ok and os.path.exists(mr), "impl_ok": impl_ok, "translate_error": translate_error}
    return st


def coqchk_cached(timeout=5400):
    """thorough tier: re-check every compiled property file and everything it depends on with Coq's independent
    checker (coqchk -o prints the axioms relied upon).  About 12 minutes; cached per state of the .vo files."""
    vos = sorted(tree_files(COQ, (".vo",)))
    h = hashlib.sha256()
    for v in vos:
        # by CONTENT, not by time stamp: every check recompiles its (tiny) property file to capture Print Assumptions,
        # which rewrites an identical .vo with a new time
        with open(v, "rb") as f:
            h.update(("%s %s\n" % (os.path.relpath(v, COQ), hashlib.sha256(f.read()).hexdigest())).encode())
    key = h.hexdigest()
    stamp = os.path.join(BUILD, "coqchk.json")
    try:
        d = json.load(open(stamp))
        if d.get("key") == key:
            return d
    except Exception:
        pass
    mods = ["B39.Properties." + os.path.basename(f)[:-2] for f in sorted(tree_files(os.path.join(COQ, "Properties"), (".v",)))]
    t0 = time.time()
    with Lock():
        rc, out = sh(["coqchk", "-silent", "-o", "-Q", ".", "B39"] + mods, cwd=COQ, timeout=timeout)
    summ = out[out.index("CONTEXT SUMMARY"):] if "CONTEXT SUMMARY" in out else out[-1500:]
    d = {"key": key, "rc": rc, "seconds": round(time.time() - t0, 1), "modules": mods, "summary": " ".join(summ.split()),
         "ok": rc == 0 and "Axioms: <none>" in " ".join(summ.split())}
    with open(stamp, "w") as f:
        json.dump(d, f, indent=1)
    return d


def changed_functions():
    """names of root-package functions whose normalised source differs from the pinned fingerprints"""
    try:
        cur = json.load(open(os.path.join(BUILD, "gen_summary.json"))).get("func_fingerprints") or {}
        pin = json.load(open(os.path.join(ROOT, "canon", "fingerprints.json")))["functions"]
    except Exception:
        return ["<fingerprints unavailable>"]
    return sorted(k for k in set(cur) | set(pin) if cur.get(k) != pin.get(k))


def env_reads():
    try:
        return json.load(open(os.path.join(BUILD, "gen_summary.json"))).get("env_reads") or []
    except Exception:
        return []


def build_race():
    """implrun with the race detector on (built from /repo's working tree, hooks on); returns (ok, log)"""
    with Lock():
        hdir = os.path.join(ROOT, "harness")
        rc, out = sh(["go", "build", "-race", "-tags", "verif", "-o", os.path.join(BUILD, "implrun_race"), "."], cwd=hdir, env=GOENV, timeout=1800)
        # the same with the PLAIN build of the package (no tag): concurrent programs that need no scripted source run there too
        rc2, out2 = sh(["go", "build", "-race", "-o", os.path.join(BUILD, "implrun_race_plain"), "."], cwd=hdir, env=GOENV, timeout=1800)
        if rc2 != 0 and os.path.exists(os.path.join(BUILD, "implrun_race_plain")):
            os.remove(os.path.join(BUILD, "implrun_race_plain"))
    return rc == 0, out


def run_race(progs, timeout=180, plain=False, env=None):
    """progs: list of programs; a program is a list of goroutines; a goroutine is a list of op lines.
    Each program runs in its own fresh process (cold package).  Returns (per-goroutine result lists, race report or None, rc)."""
    import tempfile, concurrent.futures
    def one(prog):
        fd, path = tempfile.mkstemp(prefix="race-", suffix=".txt", dir=BUILD)
        with os.fdopen(fd, "w") as f:
            for g in prog:
                f.write(("PRE " + "|".join(g[1:]) if g and g[0] == "PRE" else "|".join(g)) + "\n")
        try:
            p = subprocess.run([os.path.join(BUILD, "implrun_race_plain" if plain else "implrun_race"), "race", path], env=dict(GOENV, GORACE="halt_on_error=0", **(env or {})),
                               stdout=subprocess.PIPE, stderr=subprocess.PIPE, text=True, timeout=timeout)
            rc, out, err = p.returncode, p.stdout, p.stderr
        except subprocess.TimeoutExpired:
            rc, out, err = -9, "", "timeout"
        finally:
            os.remove(path)
        rows = [l.split(" | ") for l in out.split("\n") if l != ""]
        race = None
        if "DATA RACE" in err:
            race = err[err.index("WARNING: DATA RACE"):][:3000]
        elif rc not in (0,) and err.strip():
            race = None
        return rows, race, rc, err[-1500:]
    with concurrent.futures.ThreadPoolExecutor(max_workers=8) as ex:
        return list(ex.map(one, progs))


def vo_up_to_date(rel):
    """True iff coq/<rel>.vo exists and make considers it up to date."""
    rc, _ = sh(["make", "-q", rel + "o"], cwd=COQ)
    return rc == 0 and os.path.exists(os.path.join(COQ, rel + "o"))


def dep_cone(rel):
    """Transitive .v dependencies (inside the development) of coq/<rel>, via coqdep."""
    rc, out = sh(["coqdep", "-f", "_CoqProject"], cwd=COQ)
    deps = {}
    for line in out.splitlines():
        if ":" not in line:
            continue
        lhs, rhs = line.split(":", 1)
        targets = [t for t in lhs.split() if t.endswith(".vo")]
        ds = [d[:-1] for d in rhs.split() if d.endswith(".vo")]
        for t in targets:
            deps[t[:-1]] = ds
    seen, todo = set(), [rel]
    while todo:
        x = todo.pop()
        if x in seen:
            continue
        seen.add(x)
        todo.extend(deps.get(x, []))
    return sorted(seen)


def count_obligations(files):
    total, names = 0, []
    for f in files:
        try:
            src = open(os.path.join(COQ, f), encoding="utf-8").read()
        except OSError:
            continue
        for m in re.finditer(PROOF_KINDS, src, re.M):
            total += 1
            names.append(f + ":" + m.group(2))
    return total, names


def print_assumptions(prop_file):
    """Recompile the (tiny) property file to capture its Print Assumptions output."""
    rc, out = sh(["coqc", "-Q", ".", "B39", prop_file], cwd=COQ, timeout=600)
    return rc, out.strip()


# ---------------------------------------------------------------- running cases

def _big_stack_only():
    import resource
    try:
        resource.setrlimit(resource.RLIMIT_STACK, (resource.RLIM_INFINITY, resource.RLIM_INFINITY))
    except (ValueError, OSError):
        pass


def _big_stack():
    # the extracted OCaml code is not tail-recursive (List.app, map, ...): long inputs need a deep stack
    import resource
    try:
        # memory cap per process: a hostile case must fail (Out_of_memory, reported as driver-error), not swap the machine
        cap = int(os.environ.get("VERIF_PROC_MEM_GB", "4")) * (1 << 30)
        resource.setrlimit(resource.RLIMIT_AS, (cap, cap))
    except (ValueError, OSError):
        pass
    try:
        resource.setrlimit(resource.RLIMIT_STACK, (resource.RLIM_INFINITY, resource.RLIM_INFINITY))
    except (ValueError, OSError):
        try:
            soft, hard = resource.getrlimit(resource.RLIMIT_STACK)
            resource.setrlimit(resource.RLIMIT_STACK, (hard, hard))
        except (ValueError, OSError):
            pass


def _run_one_shard(cmd, chunk, timeout, model):
    """run one process over `chunk`; a case that kills the process (fatal out-of-memory, crash, time limit) gets the
    result `driver-error <what>` and the remaining cases are run by a new process"""
    res = []
    rest = list(chunk)
    rounds = 0
    while rest:
        rounds += 1
        p = subprocess.Popen(cmd, stdin=subprocess.PIPE, stdout=subprocess.PIPE, stderr=subprocess.PIPE, text=True, env=GOENV,
                             preexec_fn=_big_stack if model else None)
        try:
            o, e = p.communicate("\n".join(rest) + "\n", timeout=timeout)
            rc = p.returncode
        except subprocess.TimeoutExpired:
            p.kill()
            o, e = p.communicate()
            rc = "timeout"
        rl = o.split("\n")
        if rl and rl[-1] == "":
            rl.pop()
        if len(rl) >= len(rest):
            res += rl[:len(rest)]
            break
        if rounds > 60:
            raise RuntimeError("%s keeps dying (rc=%s): %s" % (cmd, rc, (e or "")[-1000:]))
        # the case after the last complete line killed the process
        res += rl
        res.append("driver-error killed rc=%s %s" % (rc, " ".join((e or "").split())[-120:]))
        rest = rest[len(rl) + 1:]
    return res


def _run_sharded(cmd, lines, shards=NPROC, timeout=3000, model=False):
    if not lines:
        return []
    shards = max(1, min(shards, (len(lines) + 199) // 200))
    chunks = [lines[i::shards] for i in range(shards)]
    import threading
    outs = [None] * shards
    errs = []

    def feed(i):
        try:
            outs[i] = _run_one_shard(cmd, chunks[i], timeout, model)
        except Exception as ex:   # noqa
            errs.append(ex)
    ths = [threading.Thread(target=feed, args=(i,)) for i in range(shards)]
    for t in ths:
        t.start()
    for t in ths:
        t.join()
    if errs:
        raise errs[0]
    res = [None] * len(lines)
    for i in range(shards):
        for j, r in enumerate(outs[i]):
            res[i + j * shards] = r
    return res


def run_impl(lines, shards=NPROC):
    return _run_sharded([os.path.join(BUILD, "implrun")], lines, shards)


def run_impl_plain(lines, shards=None):
    """the harness built WITHOUT the verif tag (the package exactly as users build it); only ops that need no hook"""
    exe = os.path.join(BUILD, "implrun_plain")
    if not os.path.exists(exe):
        return ["driver-error plain build missing"] * len(lines)
    return _run_sharded([exe], lines, shards or NPROC)


def run_impl_env(lines, extra_env):
    """one fresh implementation process with extra environment variables"""
    p = subprocess.run([os.path.join(BUILD, "implrun")], input="\n".join(lines) + "\n", env=dict(GOENV, **extra_env),
                       stdout=subprocess.PIPE, stderr=subprocess.PIPE, text=True, timeout=600)
    out = p.stdout.split("\n")
    if out and out[-1] == "":
        out.pop()
    if len(out) != len(lines):
        return ["process-failed rc=%s %s" % (p.returncode, (p.stderr or "")[-300:].replace("\n", " "))] * len(lines)
    return out


def run_model(lines, mode="model", shards=NPROC):
    return _run_sharded([os.path.join(BUILD, "modelrun"), mode], lines, shards, model=True)


# ---------------------------------------------------------------- findings, replays, evidence

def load_known_findings():
    out = []
    p = os.path.join(ROOT, "known_findings.txt")
    if os.path.exists(p):
        for line in open(p):
            line = line.strip()
            if line.startswith("finding:"):
                kv = dict(x.split("=", 1) for x in line[len("finding:"):].split() if "=" in x)
                kv["_line"] = line
                out.append(kv)
    return out


def write_replay(prop, n, data):
    d = os.path.join(ROOT, "replays")
    os.makedirs(d, exist_ok=True)
    path = os.path.join(d, "%s-%d.json" % (prop, n))
    with open(path, "w") as f:
        json.dump(data, f, indent=1)
    return path


def write_evidence(prop, ev):
    d = os.path.join(ROOT, "evidence")
    os.makedirs(d, exist_ok=True)
    with open(os.path.join(d, prop + ".json"), "w") as f:
        json.dump(ev, f, indent=1)
