"""Case generators.  All randomness comes from one random.Random(seed).
A small, independent Python BIP39 (hashlib + the pinned canonical lists) is used
only to *build inputs* (valid sentences to damage, crafted entropies); verdicts
always come from the extracted Coq specification."""
import hashlib, os, random

ROOT = os.path.dirname(os.path.dirname(os.path.abspath(__file__)))
CANON_FILES = {"ChineseSimplified": "chinese_simplified", "ChineseTraditional": "chinese_traditional",
               "Czech": "czech", "English": "english", "French": "french", "Italian": "italian",
               "Japanese": "japanese", "Korean": "korean", "Portuguese": "portuguese", "Spanish": "spanish"}
LANGS = sorted(CANON_FILES)
ENT_LENS = [16, 20, 24, 28, 32]
WORD_COUNTS = [12, 15, 18, 21, 24]
_tables = {}


def table(lang):
    if lang not in _tables:
        data = open(os.path.join(ROOT, "canon", CANON_FILES[lang] + ".txt"), "rb").read()
        _tables[lang] = data.split(b"\n")[:-1]
    return _tables[lang]


def hx(b):
    return b.hex() if b else "-"


def unhx(s):
    return b"" if s in ("-", "nil") else bytes.fromhex(s)


def sep(lang):
    return "　".encode() if lang == "Japanese" else b" "


def indices_of_entropy(ent):
    cs = len(ent) // 4
    v = (int.from_bytes(ent, "big") << cs) | (hashlib.sha256(ent).digest()[0] >> (8 - cs))
    n = len(ent) // 4 * 3
    return [(v >> (11 * (n - 1 - i))) & 2047 for i in range(n)]


def sentence(lang, idx, separator=None):
    t = table(lang)
    return (sep(lang) if separator is None else separator).join(t[i] for i in idx)


def encode(lang, ent, separator=None):
    return sentence(lang, indices_of_entropy(ent), separator)


def entropy_from_prefix(idx_prefix, n, tail_bits):
    """entropy whose first n-1 words have the given indices; tail_bits fills the 11 - n/3 entropy bits of the last word"""
    cs = n // 3
    v = 0
    for i in idx_prefix:
        v = (v << 11) | (i & 2047)
    free = 11 - cs
    v = (v << free) | (tail_bits & ((1 << free) - 1))
    return v.to_bytes(n // 3 * 4, "big")


def last_words_ok(idx_prefix, n):
    """all last-word indices that make a valid sentence with this prefix (for building inputs)"""
    cs = n // 3
    out = []
    for hi in range(1 << (11 - cs)):
        ent = entropy_from_prefix(idx_prefix, n, hi)
        out.append((hi << cs) | (hashlib.sha256(ent).digest()[0] >> (8 - cs)))
    return out


def diagonal_entropies(n, count, start=0, step=89):
    """entropies covering (position, index) pairs: word p has index (i + step*p) mod 2048 for p < n-1"""
    out = []
    for i in range(start, start + count):
        pre = [(i + step * p) % 2048 for p in range(n - 1)]
        out.append(entropy_from_prefix(pre, n, i))
    return out


def checksum_byte_entropies(rng, ent_len, values):
    """entropies whose SHA-256 starts with each of the requested byte values"""
    want = set(values)
    out = {}
    tries = 0
    while want and tries < 200000:
        e = rng.randbytes(ent_len)
        h0 = hashlib.sha256(e).digest()[0]
        if h0 in want:
            want.discard(h0)
            out[h0] = e
        tries += 1
    return [out[k] for k in sorted(out)]


def run_entropies(ent_len):
    """runs of 0 / 1 bits at either end, zero bytes at the front"""
    nb = ent_len * 8
    out = []
    full = (1 << nb) - 1
    for k in list(range(0, 41)) + [nb - 1, nb]:
        if k > nb:
            continue
        out.append((full >> k).to_bytes(ent_len, "big"))                 # k leading zero bits then ones
        out.append(((full << k) & full).to_bytes(ent_len, "big"))        # k trailing zero bits
        out.append((full ^ (full >> k)).to_bytes(ent_len, "big"))        # k leading ones then zeros
        out.append(((1 << k) - 1 if k else 0).to_bytes(ent_len, "big"))  # k trailing ones
    for z in range(0, 9):
        out.append(bytes(z) + bytes([0xA5]) * (ent_len - z))
    seen, res = set(), []
    for e in out:
        if e not in seen:
            seen.add(e)
            res.append(e)
    return res


# ---------------------------------------------------------------- scripts for the scripted reader
ERR_KINDS = ["eof", "ueof", "x1", "x2"]


def script_str(items):
    if not items:
        return "-"
    return ",".join("%s:%s" % (hx(d), e or "-") for d, e in items)


def fragment(rng, data, parts):
    """split data into `parts` pieces at random cut points (pieces may be empty)"""
    cuts = sorted(rng.randrange(0, len(data) + 1) for _ in range(parts - 1))
    out, prev = [], 0
    for c in cuts + [len(data)]:
        out.append(data[prev:c])
        prev = c
    return out


def delivered(items):
    """bytes delivered up to and including the first response carrying an error; whether an error/end occurred"""
    out = b""
    for d, e in items:
        out += d
        if e:
            return out, e
    return out, "eof"


# ---------------------------------------------------------------- unicode pools
def nfc_like_pool():
    """strings that exercise NFKD: precomposed, compatibility, reordering marks, Hangul, full-width"""
    return ["é", "é", "Å", "Å", "ｆｕｌｌ", "ﬁ", "①", "ẛ̣", "á̖", "á̖",
            "́abc", "한국어", "한", "が", "が", "ㇰ", " ", "　", "ǆ", "ﷺ", "㌖㌖",
            "̈́", "ཱི", "q̣̇", "q̣̇", "½", "²", "Ω", "Ω", "ñ", "ñ", "ß", "ſ"]
