"""Case generators.  All randomness comes from one random.Random(seed).
A small, independent Python BIP39 (hashlib + the pinned canonical lists) is used
only to *build inputs* (valid sentences to damage, crafted entropies); verdicts
always come from the extracted Coq specification."""
import hashlib, os, random

ROOT = os.path.dirname(os.path.dirname(os.path.abspath(__file__)))
CANON_FILES = {"ChineseSimplified": "chinese_simplified", "ChineseTraditional": "chinese_traditional",
               "Czech": "czech", "English": "english", "French": "french", "Italian": "italian",
               "Japanese": "japanese", "Korean": "korean", "Portuguese": "portuguese", "Spanish": "spanish"}
LANGS = sorted(CANON_FILES)
ENT_LENS = [16, 20, 24, 28, 32]
WORD_COUNTS = [12, 15, 18, 21, 24]
_tables = {}


def table(lang):
    if lang not in _tables:
        data = open(os.path.join(ROOT, "canon", CANON_FILES[lang] + ".txt"), "rb").read()
        _tables[lang] = data.split(b"\n")[:-1]
    return _tables[lang]


def hx(b):
    return b.hex() if b else "-"


def unhx(s):
    return b"" if s in ("-", "nil") else bytes.fromhex(s)


def sep(lang):
    return "　".encode() if lang == "Japanese" else b" "


def indices_of_entropy(ent):
    cs = len(ent) // 4
    v = (int.from_bytes(ent, "big") << cs) | (hashlib.sha256(ent).digest()[0] >> (8 - cs))
    n = len(ent) // 4 * 3
    return [(v >> (11 * (n - 1 - i))) & 2047 for i in range(n)]


def sentence(lang, idx, separator=None):
    t = table(lang)
    return (sep(lang) if separator is None else separator).join(t[i] for i in idx)


def encode(lang, ent, separator=None):
    return sentence(lang, indices_of_entropy(ent), separator)


def entropy_from_prefix(idx_prefix, n, tail_bits):
    """entropy whose first n-1 words have the given indices; tail_bits fills the 11 - n/3 entropy bits of the last word"""
    cs = n // 3
    v = 0
    for i in idx_prefix:
        v = (v << 11) | (i & 2047)
    free = 11 - cs
    v = (v << free) | (tail_bits & ((1 << free) - 1))
    return v.to_bytes(n // 3 * 4, "big")


def last_words_ok(idx_prefix, n):
    """all last-word indices that make a valid sentence with this prefix (for building inputs)"""
    cs = n // 3
    out = []
    for hi in range(1 << (11 - cs)):
        ent = entropy_from_prefix(idx_prefix, n, hi)
        out.append((hi << cs) | (hashlib.sha256(ent).digest()[0] >> (8 - cs)))
    return out


def diagonal_entropies(n, count, start=0, step=89):
    """entropies covering (position, index) pairs: word p has index (i + step*p) mod 2048 for p < n-1"""
    out = []
    for i in range(start, start + count):
        pre = [(i + step * p) % 2048 for p in range(n - 1)]
        out.append(entropy_from_prefix(pre, n, i))
    return out


def checksum_byte_entropies(rng, ent_len, values):
    """entropies whose SHA-256 starts with each of the requested byte values"""
    want = set(values)
    out = {}
    tries = 0
    while want and tries < 200000:
        e = rng.randbytes(ent_len)
        h0 = hashlib.sha256(e).digest()[0]
        if h0 in want:
            want.discard(h0)
            out[h0] = e
        tries += 1
    return [out[k] for k in sorted(out)]


def run_entropies(ent_len):
    """runs of 0 / 1 bits at either end, zero bytes at the front"""
    nb = ent_len * 8
    out = []
    full = (1 << nb) - 1
    for k in list(range(0, 41)) + [nb - 1, nb]:
        if k > nb:
            continue
        out.append((full >> k).to_bytes(ent_len, "big"))                 # k leading zero bits then ones
        out.append(((full << k) & full).to_bytes(ent_len, "big"))        # k trailing zero bits
        out.append((full ^ (full >> k)).to_bytes(ent_len, "big"))        # k leading ones then zeros
        out.append(((1 << k) - 1 if k else 0).to_bytes(ent_len, "big"))  # k trailing ones
    for z in range(0, 9):
        out.append(bytes(z) + bytes([0xA5]) * (ent_len - z))
    seen, res = set(), []
    for e in out:
        if e not in seen:
            seen.add(e)
            res.append(e)
    return res


# ---------------------------------------------------------------- scripts for the scripted reader
ERR_KINDS = ["eof", "ueof", "x1", "x2", "t1"]


def script_str(items):
    """items: (data, error kind or None) or (data, error kind or None, delay in ms)"""
    if not items:
        return "-"
    out = []
    for it in items:
        d, e = it[0], it[1]
        t = "%s:%s" % (hx(d), e or "-")
        if len(it) > 2 and it[2]:
            t += "@%d" % it[2]
        out.append(t)
    return ",".join(out)


def fragment(rng, data, parts):
    """split data into `parts` pieces at random cut points (pieces may be empty)"""
    cuts = sorted(rng.randrange(0, len(data) + 1) for _ in range(parts - 1))
    out, prev = [], 0
    for c in cuts + [len(data)]:
        out.append(data[prev:c])
        prev = c
    return out


def delivered(items):
    """bytes delivered up to and including the first response carrying an error; whether an error/end occurred"""
    out = b""
    for it in items:
        d, e = it[0], it[1]
        out += d
        if e:
            return out, e
    return out, "eof"


# ---------------------------------------------------------------- unicode pools
def nfc_like_pool():
    """strings that exercise NFKD: precomposed, compatibility, reordering marks, Hangul, full-width"""
    return ["é", "é", "Å", "Å", "ｆｕｌｌ", "ﬁ", "①", "ẛ̣", "á̖", "á̖",
            "́abc", "한국어", "한", "が", "が", "ㇰ", " ", "　", "ǆ", "ﷺ", "㌖㌖",
            "̈́", "ཱི", "q̣̇", "q̣̇", "½", "²", "Ω", "Ω", "ñ", "ñ", "ß", "ſ"]


# ---------------------------------------------------------------- sentences for the validator
import unicodedata

ALT_SEPS = [" ".encode(), "　".encode()]


def valid_entropies(rng, el, quick):
    out = [bytes(el), b"\xff" * el]
    for z in range(1, 9):
        out.append(bytes(z) + rng.randbytes(el - z))
    for _ in range(2 if quick else 8):
        b = rng.randrange(el * 8)
        out.append((1 << b).to_bytes(el, "big"))
    for _ in range(3 if quick else 30):
        out.append(rng.randbytes(el))
    return out


def sentence_with_word(rng, lang, n, pos, widx):
    """a valid n-word sentence (indices) holding word widx at position pos"""
    cs = n // 3
    while True:
        pre = [rng.randrange(2048) for _ in range(n - 1)]
        if pos < n - 1:
            pre[pos] = widx
            ent = entropy_from_prefix(pre, n, rng.randrange(1 << (11 - cs)))
            return indices_of_entropy(ent)
        ent = entropy_from_prefix(pre, n, widx >> cs)
        idx = indices_of_entropy(ent)
        if idx[-1] == widx:
            return idx


def fullwidth(b):
    s = b.decode()
    return "".join(chr(ord(c) - 0x20 + 0xFF00) if 0x21 <= ord(c) <= 0x7E else c for c in s).encode()


def spellings(word):
    """other spellings of a list word (generation only; equality of NFKD forms is decided by the Coq NFKD)"""
    s = word.decode()
    out = {}
    for form in ("NFC", "NFD", "NFKC", "NFKD"):
        v = unicodedata.normalize(form, s).encode()
        if v != word:
            out[form] = v
    fw = fullwidth(word)
    if fw != word:
        out["fullwidth"] = fw
    return out


def damaged(rng, lang, idx):
    """ill-formed variants of a valid sentence: (tag, bytes)"""
    t = table(lang)
    n = len(idx)
    sp = b" "
    ws = [t[i] for i in idx]
    out = []
    # word-count changes
    for k in (0, 1, 3, 6, 9, 11, n - 1, n + 1, n - 3 if n > 12 else 10, 25, 27, 30):
        if k == n:
            continue
        if k <= n:
            out.append(("count%d" % k, sp.join(ws[:k])))
        else:
            out.append(("count%d" % k, sp.join(ws + [t[rng.randrange(2048)] for _ in range(k - n)])))
    # transpositions
    for _ in range(3):
        a, b = rng.sample(range(n), 2)
        w2 = list(ws)
        w2[a], w2[b] = w2[b], w2[a]
        out.append(("transpose", sp.join(w2)))
    # words of other lists / unknown tokens at a position
    for _ in range(4):
        other = rng.choice([l for l in LANGS if l != lang])
        p = rng.randrange(n)
        w2 = list(ws)
        w2[p] = table(other)[rng.randrange(2048)]
        out.append(("otherlist", sp.join(w2)))
    for junk in (b"zzzzzz", b"", b"Abandon", ws[0].upper(), ws[0] + b"s", b"\xff\xfe", b"\xe3\x81", "𝔘".encode(), b"a\x00b",
                 b"lottery%20tool", b"%s", b"100%d", b"%!v(BADPREC)", b"a%", ws[0][:-1] if len(ws[0]) > 1 else b"q", ws[0][1:] if len(ws[0]) > 1 else b"q"):
        p = rng.randrange(n)
        w2 = list(ws)
        w2[p] = junk
        out.append(("junk", sp.join(w2)))
    # whitespace damage
    joined = sp.join(ws)
    out += [("ws-tab", b"\t".join(ws)), ("ws-double", b"  ".join(ws)), ("ws-lead", b" " + joined), ("ws-trail", joined + b" "),
            ("ws-newline", joined + b"\n"), ("ws-crlf", b"\r\n".join(ws))]
    # white space that is NOT a separator for the validator (no U+0020 in its NFKD form) inside / at the end of a token:
    # the count stays acceptable, the token is unknown and is the one to be named
    for ch in (b"\t", b"\n", b"\x0b", b"\x0c", b"\r", "\u0085".encode(), "\u2028".encode(), "\u2029".encode(), "\u1680".encode()):
        p = rng.randrange(n)
        w2 = list(ws)
        k = rng.choice((0, len(ws[p]), rng.randrange(len(ws[p].decode()) + 1)))
        sw = ws[p].decode()
        w2[p] = (sw[:k] + ch.decode() + sw[k:]).encode() if k <= len(sw) else ws[p] + ch
        out.append(("inner-ws", sp.join(w2)))
        # ... and in front of a LATER unknown token
        if p + 1 < n:
            w3 = list(w2)
            w3[p] = ws[p] + ch + ws[p]
            w3[rng.randrange(p + 1, n)] = b"notaword"
            out.append(("inner-ws-then-unknown", sp.join(w3)))
    # arbitrary bytes
    out.append(("bytes", rng.randbytes(rng.randrange(1, 200))))
    out.append(("bytes", b" ".join(rng.randbytes(rng.randrange(1, 6)) for _ in range(n))))
    return out


EQUIV_SEPS = [" ", " ", " ", " ", "　", " "]   # all map to U+0020 under NFKD


def extreme_sentences(rng, lang, n):
    """valid sentences of the longest / shortest words of a list (by bytes and by code points)"""
    t = table(lang)
    out = []
    for key, rev in ((lambda i: len(t[i]), True), (lambda i: len(t[i].decode()), True), (lambda i: len(t[i]), False)):
        order = sorted(range(2048), key=key, reverse=rev)
        pre = order[:n - 1]
        rng.shuffle(pre)
        ok = last_words_ok(pre, n)
        last = sorted(ok, key=key, reverse=rev)[0]
        out.append(pre + [last])
    return out


def validator_inputs(rng, lang, n=None):
    """a diverse set of validator inputs for one language: (tag, bytes)"""
    t = table(lang)
    other = rng.choice([l for l in LANGS if l != lang])
    out = []
    for cnt in ([n] if n else [12, 24, rng.choice([15, 18, 21])]):
        el = cnt // 3 * 4
        zl = rng.choice((2, 4, 5, 8, el - 1))
        z = indices_of_entropy(bytes(zl) + rng.randbytes(el - zl))     # entropy starts with zero bytes (2 .. all but one)
        nz = indices_of_entropy(bytes([0xFF]) + rng.randbytes(el - 1))  # entropy starts with a non-zero byte
        out.append(("valid-zero-lead-%d" % cnt, sentence(lang, z, b" ")))
        out.append(("valid-nonzero-lead-%d" % cnt, sentence(lang, nz, b" ")))
        for base, nm in ((z, "zero"), (nz, "nonzero")):
            bad = list(base)
            bad[-1] ^= 1
            out.append(("checksum-%s-lead-%d" % (nm, cnt), sentence(lang, bad, b" ")))
        ws = [t[i] for i in nz]
        for pos in (0, 1, cnt // 2, cnt - 1):
            w2 = list(ws)
            w2[pos] = b"zzzunknown"
            out.append(("unknown-at-%d-of-%d" % (pos, cnt), b" ".join(w2)))
        out.append(("count-%d" % (cnt + 1), b" ".join(ws + [t[7]])))
    out.append(("other-language", sentence(other, indices_of_entropy(rng.randbytes(16)), b" ")))
    return out


def respell_one_char(rng, b, where):
    """respell ONE character of a sentence (first / last / random position) in an NFKD-equivalent way, or None"""
    s = b.decode()
    pos = {"first": 0, "last": len(s) - 1}.get(where)
    idxs = [pos] if pos is not None else rng.sample(range(len(s)), min(len(s), 8))
    for i in idxs:
        c = s[i]
        if 0x21 <= ord(c) <= 0x7E:
            r = chr(ord(c) - 0x20 + 0xFF00)          # full-width form
        elif c == " ":
            r = chr(0x3000)
        else:
            # compose with the preceding base character where possible (NFC of the two-character cluster)
            j = i
            while j > 0 and unicodedata.combining(s[j]):
                j -= 1
            cl = s[j:i + 1]
            rc = unicodedata.normalize("NFC", cl)
            if rc != cl:
                return (s[:j] + rc + s[i + 1:]).encode()
            continue
        return (s[:i] + r + s[i + 1:]).encode()
    return None


def extreme_entropies(rng, lang, ent_len):
    """entropies whose sentences consist of the longest (by bytes / by code points) and the shortest words of a list"""
    t = table(lang)
    n = ent_len // 4 * 3
    out = []
    for key, rev in ((lambda i: len(t[i]), True), (lambda i: len(t[i].decode()), True), (lambda i: len(t[i]), False)):
        order = sorted(range(2048), key=key, reverse=rev)
        top = order[:max(1, 66)]
        for mode in ("distinct", "random-top", "single"):
            if mode == "distinct":
                pre = order[:n - 1]
            elif mode == "random-top":
                pre = [rng.choice(top) for _ in range(n - 1)]
            else:
                pre = [order[0]] * (n - 1)
            # the free bits of the last word: pick the candidate giving the longest/shortest last word
            cs = n // 3
            best = None
            for hi in range(1 << (11 - cs)):
                e = entropy_from_prefix(pre, n, hi)
                last = indices_of_entropy(e)[-1]
                if best is None or (key(last) > key(best[1])) == rev and key(last) != key(best[1]):
                    best = (e, last)
            out.append(best[0])
    return out


def affix_pairs(lang):
    """pairs (w1, w2) of list indices where word w2 is a proper suffix or prefix of word w1"""
    t = table(lang)
    byw = {w: i for i, w in enumerate(t)}
    out = []
    for i, w in enumerate(t):
        for k in range(1, len(w)):
            for part in (w[k:], w[:k]):
                j = byw.get(part)
                if j is not None and j != i:
                    out.append((i, j))
    return out


def sentence_ending_with(rng, n, last):
    """a valid n-word index list whose last word has index `last` (or None if the search fails)"""
    cs = n // 3
    for _ in range(4000):
        pre = [rng.randrange(2048) for _ in range(n - 1)]
        e = entropy_from_prefix(pre, n, last >> cs)
        idx = indices_of_entropy(e)
        if idx[-1] == last:
            return idx
    return None


# ---------------------------------------------------------------- round-4 additions
_rev = None


def reverse_nfkd():
    """decomposition string -> code points whose full NFKD is that string (from the pinned dump of x/text's table)"""
    global _rev
    if _rev is None:
        _rev = {}
        for ln in open(os.path.join(ROOT, "ucd", "nfkd_xtext.txt")):
            f = ln.split()
            if ln.startswith("#") or len(f) < 3:
                continue
            cp = int(f[0], 16)
            dec = "".join(chr(int(x, 16)) for x in f[2:])
            _rev.setdefault(dec, []).append(cp)
    return _rev


def compat_respellings(rng, word, limit=6):
    """spellings of `word` (bytes, in NFKD form) in which ONE substring of 1..4 code points is replaced by a single
    code point whose NFKD is that substring: compatibility ideographs and radicals, circled / parenthesised / squared
    letters, roman numerals, ligatures, precomposed letters ...   -> list of (category name, bytes)"""
    s = word.decode()
    rev = reverse_nfkd()
    out = []
    for i in range(len(s)):
        for L in (1, 2, 3, 4):
            sub = s[i:i + L]
            if len(sub) < L:
                break
            for cp in rev.get(sub, ()):
                out.append((unicodedata.category(chr(cp)) + ("/bmp" if cp < 0x10000 else "/astral"), (s[:i] + chr(cp) + s[i + L:]).encode()))
    if len(out) > limit:
        # keep variety: one per category first
        by = {}
        for c, v in out:
            by.setdefault(c, []).append(v)
        pick = [(c, rng.choice(vs)) for c, vs in sorted(by.items())]
        rest = [x for x in out if x not in pick]
        rng.shuffle(rest)
        out = (pick + rest)[:max(limit, len(pick))]
    return out


INVISIBLE = [0x034F, 0x200B, 0x200C, 0x200D, 0x2060, 0xFEFF, 0x00AD, 0x180E, 0x061C, 0x200E, 0xFE0F, 0xE0001]


def invisible_variants(rng, word):
    """a list word with ONE invisible / default-ignorable code point (none of which NFKD removes) at the front, inside
    or at the end: such a token is not a list word"""
    s = word.decode()
    out = []
    for cp in INVISIBLE:
        k = rng.choice((0, len(s), rng.randrange(len(s) + 1)))
        out.append((s[:k] + chr(cp) + s[k:]).encode())
    return out


def plane_twins(word):
    """a list word with its first / last character moved to another plane (code point + k * 0x10000): not a list word"""
    s = word.decode()
    out = []
    for pos in (0, len(s) - 1):
        for k in (1, 2, 3, 16):
            cp = ord(s[pos]) + k * 0x10000
            if cp <= 0x10FFFF:
                out.append((s[:pos] + chr(cp) + s[pos + 1:]).encode())
    return out


BOUNDARY_CPS = ([0x7F, 0x80, 0xFF, 0x100, 0x7FF, 0x800, 0xFFF, 0x1000, 0x33FF, 0x3400, 0x4DB5, 0x4DBF, 0x4DC0, 0x4DFF, 0x4E00, 0x9FA5, 0x9FA6, 0x9FBB,
                 0x9FCC, 0x9FD5, 0x9FEA, 0x9FEF, 0x9FFC, 0x9FFF, 0xA000, 0xABFF, 0xAC00, 0xD7A3, 0xD7A4, 0xD7FF, 0xE000, 0xF8FF, 0xF900, 0xFAFF, 0xFB00,
                 0xFFFD, 0xFFFE, 0xFFFF, 0x10000, 0x1FFFF, 0x20000, 0x2A6DF, 0x2A700, 0x2F800, 0x2FA1D, 0x30000, 0xE0000, 0xFFFFF, 0x100000, 0x10FFFF,
                 0x3040, 0x3041, 0x3096, 0x309F, 0x30A0, 0x30FF, 0x1100, 0x11FF, 0x3130, 0x318F])


def zero_checksum_entropies(rng, el, want=(0, None)):
    """entropies whose CS checksum bits are all 0 / all 1 (want: bit patterns, None = all ones)"""
    cs = el // 4
    out = []
    for w in want:
        target = (1 << cs) - 1 if w is None else w
        for _ in range(20000):
            e = rng.randbytes(el)
            if hashlib.sha256(e).digest()[0] >> (8 - cs) == target:
                out.append(e)
                break
    return out


def stuck_sources(rng, need):
    """byte strings of length `need` + 2 containing long runs of identical bytes (a healthy source may emit them)"""
    out = [bytes([v]) * (need + 2) for v in (0x00, 0xFF, 0x55, rng.randrange(1, 255))]
    for run in (5, 6, 7, 8, 12, need - 1):
        if run > need:
            continue
        off = rng.randrange(0, need - run + 1)
        d = bytearray(rng.randbytes(need + 2))
        d[off:off + run] = bytes([rng.randrange(256)]) * run
        out.append(bytes(d))
        d = bytearray(rng.randbytes(need + 2))
        d[need - run:need] = bytes([rng.randrange(256)]) * run       # the run ends exactly at the last needed byte
        out.append(bytes(d))
    # counters and alternations (no run at all)
    out.append(bytes((i * 1) % 256 for i in range(need + 2)))
    out.append(bytes((0xAA, 0x55)[i % 2] for i in range(need + 2)))
    return out


LONG_DECOMP = [0xFDFA, 0xFDFB, 0x3307, 0x3310, 0x3350, 0x321D, 0x321E, 0x2057, 0x222D, 0x2A0C, 0x1F14A, 0x33FF, 0xFC5E, 0xFE74]


def expansion_strings():
    """strings whose NFKD form is many times longer than the string (little ASCII around)"""
    out = []
    for cp in LONG_DECOMP:
        for k in (1, 2, 5, 6, 7, 8, 15, 16, 17, 31, 45, 50, 64, 100, 300):
            out.append(chr(cp) * k)
    out.append("".join(chr(c) for c in LONG_DECOMP) * 7)
    out.append("a" + chr(0xFDFA) * 40 + "b")
    return [x.encode() for x in out]


def unordered_mark_pairs():
    """(typed, canonical) strings WITHOUT any decomposable character in which only the order of combining marks differs"""
    lo, hi = [0x323, 0x316, 0x327, 0x31B, 0x5B0, 0x1DC0 + 0x3F, 0x93C], [0x301, 0x302, 0x308, 0x303, 0x3099, 0x20D0]
    out = []
    for base in ("e", "a", "o", "q", "x", ""):
        for l in lo:
            for h in hi:
                cl, ch = unicodedata.combining(chr(l)), unicodedata.combining(chr(h))
                if not cl or not ch or cl == ch:
                    continue
                a, b = (chr(h) + chr(l), chr(l) + chr(h)) if cl < ch else (chr(l) + chr(h), chr(h) + chr(l))
                out.append(((base + a + "z").encode(), (base + b + "z").encode()))
    return out


_base_pool = nfc_like_pool


def nfc_like_pool():
    """... plus capitals and other cased letters whose compatibility / precomposed spelling has a different case mapping
    (a case fold applied before or after normalisation gives different results on them)"""
    return _base_pool() + ["ℋ", "H", "㎒", "MHz", "İ", "İ", "Ⅻ", "XII", "Ǆ", "DŽ", "ǅ",
                           "Ａｂ", "Ⓐ", "ẞ", "ϒ", "ϓ", "ﬅ", "K", "Å", "ẛ"]


_pool2 = nfc_like_pool


def nfc_like_pool():
    """... plus U+034F typed by the user (real NFKD keeps it) next to characters that NFKD lengthens"""
    return _pool2() + ["a͏b", "é͏", "͏Ａ", "ﬁ͏é"]
