"""Per-property exploration: generators, the three-way comparison
(implementation / extracted model / extracted specification) and the rule that
decides whether a disagreement contradicts the property."""
import hashlib, random
import common, gens
from core import Result
from gens import hx, unhx, LANGS, ENT_LENS, WORD_COUNTS

UNSUPPORTED = ["-1", "10", "11", "100", "10000", "-9223372036854775808", "9223372036854775807", "256", "265"]


def three_way(lines, need_spec=True):
    impl = common.run_impl(lines)
    model = common.run_model(lines, "model")
    spec = common.run_model(lines, "spec") if need_spec else [None] * len(lines)
    return impl, model, spec


def strip_impl_E(r):
    return r.replace(" MUTATED-ENTROPY", "")


# ---------------------------------------------------------------- E stream (NewMnemonicByEntropy)
def gen_E(rng, tier, langs=LANGS):
    q = tier == "quick"
    lines, tags = [], []
    for lang in langs:
        for el in ENT_LENS:
            n = el // 4 * 3
            ents = []
            start = rng.randrange(2048)
            for e in gens.diagonal_entropies(n, 24 if q else 2048, start=start if q else 0):
                ents.append(("diag", e))
            vals = rng.sample(range(256), 12) if q else range(256)
            for e in gens.checksum_byte_entropies(rng, el, vals):
                ents.append(("csbyte", e))
            runs = gens.run_entropies(el)
            if q:
                runs = rng.sample(runs, 24)
            for e in runs:
                ents.append(("runs", e))
            for _ in range(10 if q else 200):
                ents.append(("random", rng.randbytes(el)))
            for tag, e in ents:
                lines.append("E %s %s" % (lang, hx(e)))
                tags.append("E/%s/%d/%s" % (lang, el, tag))
    return lines, tags


def check_E(res, lines, tags, impl, model, spec, pid):
    for ln, tg, i, m, s in zip(lines, tags, impl, model, spec):
        res.evaluations += 1
        res.count(tg.rsplit("/", 1)[0] if tg.count("/") > 2 else tg)
        i0 = strip_impl_E(i)
        if i0.startswith("ok "):
            res.nontrivial.add(ln)
        if "MUTATED-ENTROPY" in i:
            res.violation(stream="E", case=ln, impl=i, model=m, spec=s, why="the entropy slice passed in was modified")
            continue
        if s != "unspecified" and i0 != s:
            res.violation(stream="E", case=ln, impl=i, model=m, spec=s,
                          why="NewMnemonicByEntropy differs from the BIP39 sentence of the specification")
        elif i0 != m:
            res.corr_break(stream="E", case=ln, impl=i, model=m, spec=s, why="model and implementation differ")
    for ln, i in list(zip(lines, impl))[:3]:
        res.sample({"case": ln, "impl": i})


def C01(tier, seed, st):
    res = Result("C01")
    rng = random.Random(seed)
    lines, tags = gen_E(rng, tier)
    # unsupported Language values fall back to the English list: model only (the property does not constrain them)
    for u in UNSUPPORTED[:4]:
        lines.append("E %s %s" % (u, hx(rng.randbytes(16))))
        tags.append("E/unsupported")
    impl, model, spec = three_way(lines)
    check_E(res, lines, tags, impl, model, spec, "C01")
    # shape: exactly one separator between words, none at the ends
    for ln, i in zip(lines, impl):
        f = ln.split()
        if f[1] in LANGS and i.startswith("ok "):
            sp = gens.sep(f[1])
            ws = unhx(i[3:]).split(sp)
            n = len(unhx(f[2])) // 4 * 3
            if len(ws) != n or any(w == b"" for w in ws):
                res.violation(stream="E", case=ln, impl=i, model="", spec="%d non-empty words joined by single separators" % n,
                              why="wrong number of words or a leading/trailing/doubled separator")
    res.streams["E"] = len(lines)
    return res


# ---------------------------------------------------------------- C05
def C05(tier, seed, st):
    res = Result("C05")
    rng = random.Random(seed)
    q = tier == "quick"
    lines, tags = gen_E(rng, tier)
    # single-bit flips of sample entropies
    base = []
    for lang in LANGS:
        for el in ENT_LENS:
            e = rng.randbytes(el)
            base.append((lang, e))
    flips = []
    for lang, e in base:
        nb = len(e) * 8
        bits = range(nb) if not q else rng.sample(range(nb), 24)
        lines.append("E %s %s" % (lang, hx(e)))
        tags.append("E/%s/%d/flipbase" % (lang, len(e)))
        for b in bits:
            v = int.from_bytes(e, "big") ^ (1 << b)
            lines.append("E %s %s" % (lang, hx(v.to_bytes(len(e), "big"))))
            tags.append("E/%s/%d/flip" % (lang, len(e)))
    impl = common.run_impl(lines)
    model = common.run_model(lines, "model")
    # decode what the implementation returned with the specification's independent decoder
    dl, idxs = [], []
    for k, (ln, i) in enumerate(zip(lines, impl)):
        i0 = strip_impl_E(i)
        if i0.startswith("ok "):
            dl.append("D %s %s" % (ln.split()[1], i0[3:]))
            idxs.append(k)
    dec = common.run_model(dl, "spec")
    decoded = dict(zip(idxs, dec))
    seen = {}
    for k, (ln, tg, i, m) in enumerate(zip(lines, tags, impl, model)):
        res.evaluations += 1
        res.count(tg.rsplit("/", 1)[0])
        f = ln.split()
        i0 = strip_impl_E(i)
        want = "ent " + f[2]
        got = decoded.get(k, "not-ok")
        if i0.startswith("ok "):
            res.nontrivial.add(ln)
            key = (f[1], i0)
            if key in seen and seen[key] != f[2]:
                res.violation(stream="E", case=ln, impl=i, model=m, spec="distinct entropies have distinct mnemonics",
                              why="same mnemonic as entropy " + seen[key])
            seen[key] = f[2]
        if got != want:
            res.violation(stream="E+D", case=ln, impl=i, model=m, spec=want, decoded=got,
                          why="the BIP39 decoding of the returned mnemonic is not the original entropy")
        elif i0 != m:
            res.corr_break(stream="E", case=ln, impl=i, model=m, why="model and implementation differ")
    res.sample({"case": lines[0], "impl": impl[0], "decoded": decoded.get(0)})
    res.sample({"case": lines[-1], "impl": impl[-1], "decoded": decoded.get(len(lines) - 1)})
    res.streams["E"] = len(lines)
    res.streams["D"] = len(dl)
    return res


# ---------------------------------------------------------------- C09
def C09(tier, seed, st):
    res = Result("C09")
    rng = random.Random(seed)
    q = tier == "quick"
    lines, expect = [], []
    # every slice length 0..600 and nil, plus 2^k +- 1
    lens = list(range(0, 601)) + [2 ** k + d for k in range(10, 17 if q else 21) for d in (-1, 0, 1)]
    for n in lens:
        lang = rng.choice(LANGS + UNSUPPORTED[:3])
        lines.append("E %s %s" % (lang, hx(rng.randbytes(n)) if n else "-"))
        expect.append("ok" if n in ENT_LENS else "err entropylen")
    for lang in LANGS:
        lines.append("E %s nil" % lang)
        expect.append("err entropylen")
        for n in ENT_LENS:
            lines.append("E %s %s" % (lang, hx(rng.randbytes(n))))
            expect.append("ok")
    # every word count in [-300, 300] plus the extremes of int; the reader offers plenty of bytes
    counts = list(range(-300, 301))
    big = [2 ** 31, 2 ** 32, 2 ** 62, 2 ** 63 - 1, -2 ** 63, -2 ** 31, -2 ** 32, -2 ** 62]
    for b in big:
        for d in (-24, -12, -1, 0, 1, 3, 12, 15, 18, 21, 24, 27):
            v = b + d
            if -2 ** 63 <= v <= 2 ** 63 - 1:
                counts.append(v)
    plenty = gens.script_str([(rng.randbytes(40), None)])
    for c in counts:
        lang = rng.choice(LANGS + UNSUPPORTED[:3])
        lines.append("N %d %s %s" % (c, lang, plenty))
        expect.append("okN" if c in WORD_COUNTS else "err wordlen used=0 reads=0")
    impl = common.run_impl(lines)
    model = common.run_model(lines, "model")
    for ln, ex, i, m in zip(lines, expect, impl, model):
        res.evaluations += 1
        f = ln.split()
        res.count(f[0] + ("/accepted" if ex.startswith("ok") else "/rejected"))
        i0 = strip_impl_E(i)
        ok = True
        if ex == "ok":
            ok = i0.startswith("ok ") and i0 != "ok -"
            res.nontrivial.add(ln)
        elif ex == "okN":
            ok = i0.startswith("ok ") and not i0.startswith("ok - ")
            res.nontrivial.add(ln)
        else:
            ok = i0 == ex
            if f[0] == "N" or len(res.nontrivial) < 100000:
                res.nontrivial.add(f[0] + " " + (f[1] if f[0] == "N" else str(len(unhx(f[2])))))
        if not ok:
            res.violation(stream=f[0], case=ln, impl=i, model=m, spec=ex,
                          why="size gate: expected %s" % ("a non-empty mnemonic and nil error" if ex.startswith("ok") else ex))
        else:
            mi = i0 if f[0] == "E" else i0.rsplit(" reads=", 1)[0]
            if mi != m:
                res.corr_break(stream=f[0], case=ln, impl=i, model=m, why="model and implementation differ")
    res.sample({"case": lines[17], "impl": impl[17], "expected": expect[17]})
    res.sample({"case": lines[-1], "impl": impl[-1], "expected": expect[-1]})
    res.streams["E"] = sum(1 for l in lines if l[0] == "E")
    res.streams["N"] = sum(1 for l in lines if l[0] == "N")
    res.exhaustive = False
    return res


# ---------------------------------------------------------------- C16
def C16(tier, seed, st):
    res = Result("C16")
    rng = random.Random(seed)
    q = tier == "quick"
    vals = list(range(-2000 if q else -70000, 2001 if q else 70001))
    for k in (7, 8, 15, 16, 31, 32, 63):
        for d in (-2, -1, 0, 1, 2):
            for sgn in (1, -1):
                v = sgn * (2 ** k) + d
                if -2 ** 63 <= v <= 2 ** 63 - 1:
                    vals.append(v)
    vals += [2 ** 63 - 1, -2 ** 63]
    for _ in range(200 if q else 5000):
        vals.append(rng.randrange(-2 ** 63, 2 ** 63))
        vals.append(256 * rng.randrange(-2 ** 40, 2 ** 40) + rng.randrange(0, 12))
    lines = ["L %d" % v for v in vals] + ["L " + n for n in LANGS]
    impl, model, spec = three_way(lines)
    names = set()
    for ln, i, m, s in zip(lines, impl, model, spec):
        res.evaluations += 1
        f = ln.split()
        res.count("named" if not s.startswith("ok 4c616e677561676528") else "other")
        if not s.startswith("ok 4c616e677561676528"):
            res.nontrivial.add(ln)
            names.add(s)
        elif len(res.nontrivial) < 10 ** 6:
            res.nontrivial.add(ln)
        if i != s:
            res.violation(stream="L", case=ln, impl=i, model=m, spec=s, why="Language.String() differs from the declared name / Language(N)")
        elif i != m:
            res.corr_break(stream="L", case=ln, impl=i, model=m, why="model and implementation differ")
    if len(names) != 10:
        res.violation(stream="L", case="names", impl=sorted(names), model="", spec="ten distinct names", why="supported languages do not have ten distinct names")
    # the decimal printer of the model is strconv.FormatInt
    il = ["I %d" % v for v in vals[-400:]]
    ii, im = common.run_impl(il), common.run_model(il, "model")
    for ln, a, b in zip(il, ii, im):
        res.evaluations += 1
        if a != b:
            res.corr_break(stream="I", case=ln, impl=a, model=b, why="itoa differs from strconv.FormatInt")
    res.sample({"case": "L 9", "impl": impl[lines.index("L 9")]})
    res.sample({"case": "L -1", "impl": impl[lines.index("L -1")]})
    res.streams["L"] = len(lines)
    res.streams["I"] = len(il)
    return res


CHECKS = {"C01": C01, "C05": C05, "C09": C09, "C16": C16}
