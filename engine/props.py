"""Per-property exploration: generators, the three-way comparison
(implementation / extracted model / extracted specification) and the rule that
decides whether a disagreement contradicts the property."""
import hashlib, random
import common, gens
from core import Result
from gens import hx, unhx, LANGS, ENT_LENS, WORD_COUNTS

UNSUPPORTED = ["-1", "10", "11", "100", "10000", "-9223372036854775808", "9223372036854775807", "256", "265"]


def three_way(lines, need_spec=True):
    impl = common.run_impl(lines)
    model = common.run_model(lines, "model")
    spec = common.run_model(lines, "spec") if need_spec else [None] * len(lines)
    return impl, model, spec


def strip_impl_E(r):
    return r.replace(" MUTATED-ENTROPY", "")


# ---------------------------------------------------------------- E stream (NewMnemonicByEntropy)
def gen_E(rng, tier, langs=LANGS):
    q = tier == "quick"
    lines, tags = [], []
    for lang in langs:
        for el in ENT_LENS:
            n = el // 4 * 3
            ents = []
            start = rng.randrange(2048)
            for e in gens.diagonal_entropies(n, 24 if q else 2048, start=start if q else 0):
                ents.append(("diag", e))
            vals = rng.sample(range(256), 12) if q else range(256)
            for e in gens.checksum_byte_entropies(rng, el, vals):
                ents.append(("csbyte", e))
            runs = gens.run_entropies(el)
            if q:
                runs = rng.sample(runs, 24)
            for e in runs:
                ents.append(("runs", e))
            for _ in range(10 if q else 200):
                ents.append(("random", rng.randbytes(el)))
            for e in gens.zero_checksum_entropies(rng, el, (0, None, 1)):
                ents.append(("cs-extreme", e))
            if not q or el in (16, 28, 32):
                for e in gens.extreme_entropies(rng, lang, el):
                    ents.append(("extreme-words", e))
            for tag, e in ents:
                lines.append("E %s %s" % (lang, hx(e)))
                tags.append("E/%s/%d/%s" % (lang, el, tag))
    return lines, tags


def check_E(res, lines, tags, impl, model, spec, pid):
    for ln, tg, i, m, s in zip(lines, tags, impl, model, spec):
        res.evaluations += 1
        res.count(tg.rsplit("/", 1)[0] if tg.count("/") > 2 else tg)
        i0 = strip_impl_E(i)
        if i0.startswith("ok "):
            res.nontrivial.add(ln)
        if "MUTATED-ENTROPY" in i:
            res.violation(stream="E", case=ln, impl=i, model=m, spec=s, why="the entropy slice passed in was modified")
            continue
        if s != "unspecified" and i0 != s:
            res.violation(stream="E", case=ln, impl=i, model=m, spec=s,
                          why="NewMnemonicByEntropy differs from the BIP39 sentence of the specification")
        elif i0 != m:
            res.corr_break(stream="E", case=ln, impl=i, model=m, spec=s, why="model and implementation differ")
    for ln, i in list(zip(lines, impl))[:3]:
        res.sample({"case": ln, "impl": i})


def C01(tier, seed, st):
    res = Result("C01")
    rng = random.Random(seed)
    lines, tags = gen_E(rng, tier)
    # unsupported Language values fall back to the English list: model only (the property does not constrain them)
    for u in UNSUPPORTED[:4]:
        lines.append("E %s %s" % (u, hx(rng.randbytes(16))))
        tags.append("E/unsupported")
    impl, model, spec = three_way(lines)
    check_E(res, lines, tags, impl, model, spec, "C01")
    # shape: exactly one separator between words, none at the ends
    for ln, i in zip(lines, impl):
        f = ln.split()
        if f[1] in LANGS and i.startswith("ok ") and "MUTATED" not in i:
            sp = gens.sep(f[1])
            ws = unhx(i[3:]).split(sp)
            n = len(unhx(f[2])) // 4 * 3
            if len(ws) != n or any(w == b"" for w in ws):
                res.violation(stream="E", case=ln, impl=i, model="", spec="%d non-empty words joined by single separators" % n,
                              why="wrong number of words or a leading/trailing/doubled separator")
    res.streams["E"] = len(lines)
    # the same generator calls after the package has been used for validation in that language
    q = tier == "quick"
    def e_ops(lang):
        return ["E %s %s" % (lang, hx(e)) for el in ENT_LENS for e in gens.diagonal_entropies(el // 4 * 3, 3 if q else 40, start=rng.randrange(2048))]
    run_Q(res, warm_E_histories(rng, LANGS, e_ops), judge_op_generator)
    # generation after FAILED draws, and calls of different sizes after one another, in one process
    run_Q(res, failed_draw_histories(rng, q) + resize_histories(rng, q) + piecewise_draw_histories(rng, q), judge_op_draw)
    # the same calls made by several goroutines at once
    concurrent_stream(res, rng, lambda: "E %s %s" % (rng.choice(LANGS), hx(rng.randbytes(rng.choice(ENT_LENS)))), programs=3 if q else 20)
    return res


# ---------------------------------------------------------------- C05
def C05(tier, seed, st):
    res = Result("C05")
    rng = random.Random(seed)
    q = tier == "quick"
    lines, tags = gen_E(rng, tier)
    # single-bit flips of sample entropies
    base = []
    for lang in LANGS:
        for el in ENT_LENS:
            e = rng.randbytes(el)
            base.append((lang, e))
    flips = []
    for lang, e in base:
        nb = len(e) * 8
        bits = range(nb) if not q else rng.sample(range(nb), 24)
        lines.append("E %s %s" % (lang, hx(e)))
        tags.append("E/%s/%d/flipbase" % (lang, len(e)))
        for b in bits:
            v = int.from_bytes(e, "big") ^ (1 << b)
            lines.append("E %s %s" % (lang, hx(v.to_bytes(len(e), "big"))))
            tags.append("E/%s/%d/flip" % (lang, len(e)))
    impl = common.run_impl(lines)
    model = common.run_model(lines, "model")
    # decode what the implementation returned with the specification's independent decoder
    dl, idxs = [], []
    for k, (ln, i) in enumerate(zip(lines, impl)):
        i0 = strip_impl_E(i)
        if i0.startswith("ok "):
            dl.append("D %s %s" % (ln.split()[1], i0[3:]))
            idxs.append(k)
    dec = common.run_model(dl, "spec")
    decoded = dict(zip(idxs, dec))
    seen = {}
    for k, (ln, tg, i, m) in enumerate(zip(lines, tags, impl, model)):
        res.evaluations += 1
        res.count(tg.rsplit("/", 1)[0])
        f = ln.split()
        i0 = strip_impl_E(i)
        want = "ent " + f[2]
        got = decoded.get(k, "not-ok")
        if i0.startswith("ok "):
            res.nontrivial.add(ln)
            key = (f[1], i0)
            if key in seen and seen[key] != f[2]:
                res.violation(stream="E", case=ln, impl=i, model=m, spec="distinct entropies have distinct mnemonics",
                              why="same mnemonic as entropy " + seen[key])
            seen[key] = f[2]
        if got != want:
            res.violation(stream="E+D", case=ln, impl=i, model=m, spec=want, decoded=got,
                          why="the BIP39 decoding of the returned mnemonic is not the original entropy")
        elif i0 != m:
            res.corr_break(stream="E", case=ln, impl=i, model=m, why="model and implementation differ")
    res.sample({"case": lines[0], "impl": impl[0], "decoded": decoded.get(0)})
    res.sample({"case": lines[-1], "impl": impl[-1], "decoded": decoded.get(len(lines) - 1)})
    res.streams["E"] = len(lines)
    res.streams["D"] = len(dl)
    # many encodings in one process with every earlier result kept alive: an earlier mnemonic must still be the
    # encoding of its entropy after later calls (BUFFERS-CHANGED), also after validation calls
    def e_ops(lang):
        return ["E %s %s" % (lang, hx(rng.randbytes(rng.choice(ENT_LENS)))) for _ in range(6 if q else 40)]
    run_Q(res, warm_E_histories(rng, LANGS, e_ops), judge_op_generator)
    run_Q(res, failed_draw_histories(rng, q) + piecewise_draw_histories(rng, q), judge_op_draw)
    lang5 = rng.choice(LANGS)
    concurrent_stream(res, rng, lambda: "E %s %s" % (lang5, hx(rng.randbytes(rng.choice(ENT_LENS)))), programs=3 if q else 20)
    return res


# ---------------------------------------------------------------- C09
def C09(tier, seed, st):
    res = Result("C09")
    rng = random.Random(seed)
    q = tier == "quick"
    lines, expect = [], []
    # every slice length 0..600 and nil, plus 2^k +- 1
    lens = list(range(0, 601)) + [2 ** k + d for k in range(10, 17 if q else 21) for d in (-1, 0, 1)]
    for n in lens:
        lang = rng.choice(LANGS + UNSUPPORTED[:3])
        lines.append("E %s %s" % (lang, hx(rng.randbytes(n)) if n else "-"))
        expect.append("ok" if n in ENT_LENS else "err entropylen")
    for lang in LANGS:
        lines.append("E %s nil" % lang)
        expect.append("err entropylen")
        for n in ENT_LENS:
            lines.append("E %s %s" % (lang, hx(rng.randbytes(n))))
            expect.append("ok")
    # every word count in [-300, 300] plus the extremes of int; the reader offers plenty of bytes
    counts = list(range(-300, 301))
    big = [2 ** 31, 2 ** 32, 2 ** 62, 2 ** 63 - 1, -2 ** 63, -2 ** 31, -2 ** 32, -2 ** 62]
    for b in big:
        for d in (-24, -12, -1, 0, 1, 3, 12, 15, 18, 21, 24, 27):
            v = b + d
            if -2 ** 63 <= v <= 2 ** 63 - 1:
                counts.append(v)
    # wrap families: counts that differ from an accepted one by a multiple of a power of two (or three times one) -
    # where a derived quantity computed in int (bits = n/3*32, bytes = n*4/3, n*11, a conversion to a narrower
    # integer type) wraps around onto the value an accepted count would give
    for e in range(8, 64):
        for mult in (1, 3):
            for j in (1, -1, 2, -3):
                for d in (0, 1, 11, 12, 13, 15, 18, 21, 24, 25):
                    v = mult * j * 2 ** e + d
                    if -2 ** 63 <= v <= 2 ** 63 - 1:
                        counts.append(v)
    counts = list(dict.fromkeys(counts))
    plenty = gens.script_str([(rng.randbytes(40), None)])
    for c in counts:
        lang = rng.choice(LANGS + UNSUPPORTED[:3])
        lines.append("N %d %s %s" % (c, lang, plenty))
        expect.append("okN" if c in WORD_COUNTS else "err wordlen used=0 reads=0")
    # working sources of unusual but legal shapes: the last bytes together with io.EOF / another error, one byte at a
    # time, empty reads first, long runs of identical bytes - an accepted count must still succeed
    for c in WORD_COUNTS:
        need = c + c // 3
        for lang in rng.sample(LANGS, 2):
            d = rng.randbytes(need)
            shapes = [[(d, e)] for e in gens.ERR_KINDS] + [[(d[:need - 1], None), (d[need - 1:], e)] for e in gens.ERR_KINDS]
            shapes += [[(d[i:i + 1], None) for i in range(need)], [(b"", None)] * 3 + [(d, None)], [(d[:5], None), (d[5:], "eof")]]
            shapes += [[(sd[:need], None)] for sd in gens.stuck_sources(rng, need)]
            for sh in shapes:
                lines.append("N %d %s %s" % (c, lang, gens.script_str(sh)))
                expect.append("okN")
    impl = common.run_impl(lines)
    model = common.run_model(lines, "model")
    for ln, ex, i, m in zip(lines, expect, impl, model):
        res.evaluations += 1
        f = ln.split()
        res.count(f[0] + ("/accepted" if ex.startswith("ok") else "/rejected"))
        i0 = strip_impl_E(i)
        ok = True
        if ex == "ok":
            ok = i0.startswith("ok ") and i0 != "ok -"
            res.nontrivial.add(ln)
        elif ex == "okN":
            ok = i0.startswith("ok ") and not i0.startswith("ok - ")
            res.nontrivial.add(ln)
        else:
            ok = i0 == ex
            if f[0] == "N" or len(res.nontrivial) < 100000:
                res.nontrivial.add(f[0] + " " + (f[1] if f[0] == "N" else str(len(unhx(f[2])))))
        if not ok:
            res.violation(stream=f[0], case=ln, impl=i, model=m, spec=ex,
                          why="size gate: expected %s" % ("a non-empty mnemonic and nil error" if ex.startswith("ok") else ex))
        else:
            mi = i0 if f[0] == "E" else i0.rsplit(" reads=", 1)[0]
            if mi != m:
                res.corr_break(stream=f[0], case=ln, impl=i, model=m, why="model and implementation differ")
    # the same accepted call repeated (same bytes from the source): it keeps succeeding
    def judge_rep(op, r, sp):
        f = op.split()
        if f[0] == "N":
            n = int(f[1])
            d, _ = gens.delivered([(unhx(x.split(":")[0]), None if x.split(":")[1].split("@")[0] == "-" else "e") for x in f[3].split(",")]) if f[3] != "-" else (b"", None)
            if n in WORD_COUNTS and len(d) >= n + n // 3 and not r.startswith("ok "):
                return "an accepted word count with a working source must succeed, also when repeated: " + r[:80]
        return judge_op_generator(op, r, sp)
    run_Q(res, repeat_histories(rng, q), judge_rep)
    # accepted sizes after one another (every ordered pair) and after failed draws
    run_Q(res, resize_histories(rng, q) + failed_draw_histories(rng, q), judge_op_draw)
    concurrent_stream(res, rng, lambda: rng.choice(["N %d %s -" % (rng.choice(WORD_COUNTS + [11, 25]), rng.choice(LANGS)),
                                                    "E %s %s" % (rng.choice(LANGS), hx(rng.randbytes(rng.choice(ENT_LENS + [15, 33]))))]), programs=2 if q else 12)
    res.sample({"case": lines[17], "impl": impl[17], "expected": expect[17]})
    res.sample({"case": lines[-1], "impl": impl[-1], "expected": expect[-1]})
    res.streams["E"] = sum(1 for l in lines if l[0] == "E")
    res.streams["N"] = sum(1 for l in lines if l[0] == "N")
    res.exhaustive = False
    return res


# ---------------------------------------------------------------- C16
def C16(tier, seed, st):
    res = Result("C16")
    rng = random.Random(seed)
    q = tier == "quick"
    vals = list(range(-2000 if q else -70000, 2001 if q else 70001))
    for k in (7, 8, 15, 16, 31, 32, 63):
        for d in (-2, -1, 0, 1, 2):
            for sgn in (1, -1):
                v = sgn * (2 ** k) + d
                if -2 ** 63 <= v <= 2 ** 63 - 1:
                    vals.append(v)
    vals += [2 ** 63 - 1, -2 ** 63]
    for _ in range(200 if q else 5000):
        vals.append(rng.randrange(-2 ** 63, 2 ** 63))
        vals.append(256 * rng.randrange(-2 ** 40, 2 ** 40) + rng.randrange(0, 12))
    lines = ["L %d" % v for v in vals] + ["L " + n for n in LANGS]
    impl, model, spec = three_way(lines)
    names = set()
    for ln, i, m, s in zip(lines, impl, model, spec):
        res.evaluations += 1
        f = ln.split()
        res.count("named" if not s.startswith("ok 4c616e677561676528") else "other")
        if not s.startswith("ok 4c616e677561676528"):
            res.nontrivial.add(ln)
            names.add(s)
        elif len(res.nontrivial) < 10 ** 6:
            res.nontrivial.add(ln)
        if i != s:
            res.violation(stream="L", case=ln, impl=i, model=m, spec=s, why="Language.String() differs from the declared name / Language(N)")
        elif i != m:
            res.corr_break(stream="L", case=ln, impl=i, model=m, why="model and implementation differ")
    if len(names) != 10:
        res.violation(stream="L", case="names", impl=sorted(names), model="", spec="ten distinct names", why="supported languages do not have ten distinct names")
    # the decimal printer of the model is strconv.FormatInt
    il = ["I %d" % v for v in vals[-400:]]
    ii, im = common.run_impl(il), common.run_model(il, "model")
    for ln, a, b in zip(il, ii, im):
        res.evaluations += 1
        if a != b:
            res.corr_break(stream="I", case=ln, impl=a, model=b, why="itoa differs from strconv.FormatInt")
    # bit patterns with the top bit set, whatever the underlying integer type of Language is: the printed number must be
    # the value as Go itself prints it with %d
    ul = ["LU %d" % v for v in (2 ** 63, 2 ** 63 + 5, 2 ** 64 - 1, 2 ** 64 - 10, 2 ** 63 - 1, 10, 9, 0)]
    for ln, r in zip(ul, common.run_impl(ul)):
        res.evaluations += 1
        res.count("LU")
        f = r.split()
        if len(f) != 3 or f[0] != "ok":
            res.violation(stream="LU", case=ln, impl=r, model="", spec="returns normally", why="Language.String() panicked")
            continue
        num = f[2][4:]
        got = unhx(f[1]).decode("utf-8", "replace")
        if num.lstrip("-").isdigit() and not (0 <= int(num) <= 9) and got != "Language(%s)" % num:
            res.violation(stream="LU", case=ln, impl=r, model="", spec="Language(%s)" % num, why="Language.String() of an unsupported value does not print its number")
    res.sample({"case": "L 9", "impl": impl[lines.index("L 9")]})
    res.sample({"case": "L -1", "impl": impl[lines.index("L -1")]})
    res.streams["L"] = len(lines)
    res.streams["I"] = len(il)
    # String() called by several goroutines at once, supported and unsupported values mixed
    concurrent_stream(res, rng, lambda: "L %s" % rng.choice(LANGS + [str(rng.randrange(-50, 50)), str(rng.randrange(-2 ** 63, 2 ** 63))]), programs=3 if q else 20, ops=8)
    return res



# ---------------------------------------------------------------- C stream (CheckMnemonic + IsMnemonicValid)
def parse_C(i):
    """implementation/model line -> (class, valid bit)"""
    cls, _, v = i.rpartition(" valid=")
    return cls, v


def parse_spec_C(s):
    f = s.split(" class=")
    acc = f[0]
    cls, _, xs = f[1].rpartition(" xs=")
    return acc, cls, xs


def kind(cls):
    return cls.split()[0] if cls else cls


def go_quoted(tok, ascii_only=False):
    """the body of Go's strconv.Quote / QuoteToASCII of a byte string (what %q / %+q print between the quotes)"""
    out = []
    i = 0
    esc = {0x07: "\\a", 0x08: "\\b", 0x0c: "\\f", 0x0a: "\\n", 0x0d: "\\r", 0x09: "\\t", 0x0b: "\\v", 0x22: '\\"', 0x5c: "\\\\"}
    while i < len(tok):
        c = tok[i]
        if c < 0x80:
            out.append(esc.get(c) or (chr(c) if 0x20 <= c < 0x7f else "\\x%02x" % c))
            i += 1
            continue
        ch = None
        for ln in (2, 3, 4):
            try:
                ch = tok[i:i + ln].decode("utf-8")
                if len(ch) == 1:
                    break
                ch = None
            except UnicodeDecodeError:
                ch = None
        if ch is None:
            out.append("\\x%02x" % c)
            i += 1
            continue
        i += len(ch.encode())
        if ch.isprintable() and not ascii_only:
            out.append(ch)
        elif ord(ch) < 0x10000:
            out.append("\\u%04x" % ord(ch))
        else:
            out.append("\\U%08x" % ord(ch))
    return "".join(out).encode()


def same_class(icls, want):
    """does the implementation's error class match the expected one?  The property fixes the sentinels (by errors.Is)
    and, for an unknown word, only that the error is a different non-nil error whose MESSAGE NAMES the token: when the
    message is not in the wording the harness can parse (class `other <hex of message>`), the message must contain the
    token - verbatim, or in one of the escaped renderings Go's formatting verbs give it (%q, %+q, %x: a token with quotes,
    control characters or invalid UTF-8 may legitimately be shown escaped); the position is compared only when the
    wording allows it to be parsed."""
    if icls == want:
        return True
    if icls.startswith("other ") and want.startswith("unknown "):
        tok = unhx(want.split()[2])
        msg = unhx(icls.split()[1]) if len(icls.split()) > 1 else b""
        if tok in msg or go_quoted(tok) in msg or go_quoted(tok, True) in msg or (tok and tok.hex().encode() in msg.lower()):
            return True
        try:
            exotic = any(ord(ch) > 0x7f and not ch.isalnum() for ch in tok.decode("utf-8"))
        except UnicodeDecodeError:
            exotic = False
        # (Python and Go may disagree on which rare non-ASCII code points are printable: such tokens are not judged)
        return exotic
    return False


def run_C(res, items, judge):
    """items: (tag, lang, bytes, expect) ; judge(tag, expect, impl_cls, impl_valid, spec_acc, spec_cls, xs) -> reason or None"""
    lines = ["C %s %s" % (lang, hx(b)) for _, lang, b, _ in items]
    impl, model, spec = three_way(lines)
    for (tag, lang, b, expect), ln, i, m, sp in zip(items, lines, impl, model, spec):
        res.evaluations += 1
        res.count("C/" + tag.split(":")[0])
        icls, iv = parse_C(i)
        mcls, mv = parse_C(m)
        if sp == "unspecified":
            sacc, scls, xs = "reject", "?", "1"
        else:
            sacc, scls, xs = parse_spec_C(sp)
        if kind(icls) not in ("wordlen",):
            res.nontrivial.add(ln)
        # IsMnemonicValid <-> CheckMnemonic == nil (C03, part of every validator check)
        why = None
        if (iv == "1") != (icls == "nil"):
            why = "IsMnemonicValid disagrees with CheckMnemonic == nil"
        if why is None:
            why = judge(tag, expect, icls, iv, sacc, scls, xs, lang)
        if why:
            res.violation(stream="C", case=ln, impl=i, model=m, spec=sp, tag=tag, why=why)
        else:
            same = (same_class(icls, mcls) and iv == mv) if xs == "1" else ((icls == "nil") == (mcls == "nil") and iv == mv)
            if not same:
                res.corr_break(stream="C", case=ln, impl=i, model=m, spec=sp, why="model and implementation differ")
    for k in (0, len(lines) // 2, len(lines) - 1):
        if lines:
            res.sample({"case": lines[k][:300], "impl": impl[k], "spec": spec[k]})
    res.streams["C"] = res.streams.get("C", 0) + len(lines)
    return impl, spec


def judge_common(tag, expect, icls, iv, sacc, scls, xs, lang):
    """the validator properties that hold for every string under a supported language"""
    if lang not in LANGS:
        return "accepted under an unsupported Language value" if icls == "nil" else None
    if icls == "nil" and sacc != "accept":
        return "accepted a sentence the specification rejects (C03)"
    # (a sentence whose words are separated by tabs, doubled or leading/trailing spaces is "accepted" by the
    #  specification's whitespace-token reading but no property demands that the implementation accept it:
    #  C03 is one-directional, C02/C10 speak of single U+0020/U+3000-class separators - decided below by class)
    if xs == "1":
        if not same_class(icls, scls):
            return "error class differs from the specification's classification (C15): expected " + scls
    elif xs == "u":
        # not valid UTF-8: NFKD is not defined there and the library contract claims nothing about what the library
        # computes (only that it cannot turn such a string into a valid sentence: acceptance was judged above)
        return None
    else:
        if scls == "wordlen" and icls != "wordlen":
            return "wrong word count must give ErrWordLen (C15)"
        if scls != "wordlen" and kind(icls) not in ("unknown", "other"):
            return "outside the xsafe domain an acceptable count must give an unknown-word error (C15)"
    return None


def affix_items(rng, tier, langs=LANGS):
    """sentences whose LAST word is replaced by a list word that is a proper suffix/prefix of the correct last word
    (and the other way round), and the same substitution at other positions"""
    q = tier == "quick"
    items = []
    for lang in langs:
        pairs_ = gens.affix_pairs(lang)
        if not pairs_:
            continue
        for (w1, w2) in (rng.sample(pairs_, min(len(pairs_), 25)) if q else pairs_):
            n = rng.choice(WORD_COUNTS)
            for last, other in ((w1, w2), (w2, w1)):
                idx = gens.sentence_ending_with(rng, n, last)
                if idx is None:
                    continue
                items.append(("affix-last", lang, gens.sentence(lang, idx[:-1] + [other], b" "), None))
                p_ = rng.randrange(n - 1)
                idx2 = gens.sentence_with_word(rng, lang, n, p_, last)
                idx2[p_] = other
                items.append(("affix-inner", lang, gens.sentence(lang, idx2, b" "), None))
    return items


def valid_items(rng, tier, langs=LANGS):
    q = tier == "quick"
    items = []
    for lang in langs:
        for el in ENT_LENS:
            for e in gens.valid_entropies(rng, el, q):
                idx = gens.indices_of_entropy(e)
                items.append(("valid", lang, gens.sentence(lang, idx), "accept"))
            for e in gens.zero_checksum_entropies(rng, el, (0, None, 1, 0)):
                items.append(("valid-cs-extreme", lang, gens.sentence(lang, gens.indices_of_entropy(e)), "accept"))
            e = rng.randbytes(el)
            for sp in gens.ALT_SEPS:
                items.append(("valid-altsep", lang, gens.sentence(lang, gens.indices_of_entropy(e), sp), "accept"))
    return items


def word_items(rng, tier, langs=LANGS):
    """every word of every list inside a valid sentence, at rotating positions"""
    q = tier == "quick"
    items = []
    for lang in langs:
        words = range(2048)
        if q:
            start = rng.randrange(8)
            words = range(start, 2048, 8)
        for w in words:
            n = WORD_COUNTS[w % 5]
            pos = (w * 7) % n
            idx = gens.sentence_with_word(rng, lang, n, pos, w)
            items.append(("word", lang, gens.sentence(lang, idx, b" " if w % 2 else None), "accept"))
    return items


def C02(tier, seed, st):
    res = Result("C02")
    rng = random.Random(seed)
    check_K(res, random.Random(seed + 17), "quick")
    items = valid_items(rng, tier) + word_items(rng, tier)
    # sentences of the longest / shortest words of each list, at every word count
    for lang in LANGS:
        for n in WORD_COUNTS:
            for idx in gens.extreme_sentences(rng, lang, n):
                items.append(("valid-extreme", lang, gens.sentence(lang, idx), "accept"))
                items.append(("valid-extreme", lang, gens.sentence(lang, idx, "　".encode()), "accept"))
    def judge(tag, expect, icls, iv, sacc, scls, xs, lang):
        if icls == "nil" and sacc != "accept":
            return "accepted a sentence the specification rejects"
        if scls == "nil" and xs == "1" and icls != "nil":
            return "a valid mnemonic was rejected: " + icls
        if tag == "generated" and not (scls == "nil" and sacc == "accept"):
            return "a mnemonic returned by the generator is not a valid sentence by the specification (%s)" % scls
        if tag in ("valid", "valid-altsep", "valid-extreme", "valid-cs-extreme", "word") and not (scls == "nil" and sacc == "accept"):
            return "generator self-check: the specification does not classify this constructed sentence as valid (%s)" % scls
        return None
    run_C(res, items, judge)
    # generator output fed back: NewMnemonicByEntropy and NewMnemonic (scripted source) -> CheckMnemonic
    gl = []
    for lang in LANGS:
        for el in ENT_LENS:
            for z in (0, 1, 2, 4, el):
                gl.append("E %s %s" % (lang, hx(bytes(z) + rng.randbytes(el - z))))
            n = el // 4 * 3
            data = bytes(rng.choice((0, 1, 3))) + rng.randbytes(el)
            gl.append("N %d %s %s" % (n, lang, gens.script_str([(p, None) for p in gens.fragment(rng, data[:el], 3)])))
    gi = common.run_impl(gl)
    back = []
    for ln, i in zip(gl, gi):
        res.evaluations += 1
        if i.startswith("ok "):
            back.append(("generated", ln.split()[1] if ln[0] == "E" else ln.split()[2], unhx(i.split()[1]), "accept"))
        else:
            res.violation(stream=ln[0], case=ln, impl=i, model="", spec="a mnemonic", why="generator failed on a valid size")
    run_C(res, back, judge)
    res.streams["E+N"] = len(gl)
    # valid sentences validated AFTER failing validations (and after each other) in one process
    run_Q(res, validator_pair_histories(rng, rng.sample(LANGS, 2) if tier == "quick" else LANGS, tier == "quick"), judge_op_validator)
    # the same sentence under another language first; valid sentences of different sizes after one another; the same
    # respelled sentence as the first calls of a process
    qq = tier == "quick"
    run_Q(res, cross_language_histories(rng, qq) + resize_histories(rng, qq) + respelled_repeat_histories(rng, qq), judge_op_draw)
    def vop():
        l = rng.choice(LANGS)
        return "C %s %s" % (l, hx(gens.encode(l, rng.randbytes(rng.choice(ENT_LENS)))))
    concurrent_stream(res, rng, vop, programs=3 if qq else 20)
    return res


def run_Q(res, histories, judge_op):
    """histories: lists of op lines, each run in ONE fresh process in order.  Every op result is judged on its
    own against the specification (results must not depend on the history): judge_op(op, impl, spec) -> reason"""
    qlines = ["Q " + "|".join(h) for h in histories]
    impl = common.run_impl(qlines)
    model = common.run_model(qlines, "model")
    flat = [op for h in histories for op in h]
    uniq = sorted(set(op for op in flat if op[0] in "ECL"))
    specd = dict(zip(uniq, common.run_model(uniq, "spec")))
    suniq = sorted(set(op for op in flat if op[0] == "S"))
    for op, sp in zip(suniq, common.run_model(suniq, "spec")):
        f = sp.split()
        specd[op] = "seed " + pbk(unhx(f[1]), unhx(f[2])) + " " + f[5]
    for h, ql, i, m in zip(histories, qlines, impl, model):
        res.evaluations += 1
        res.count("Q/len%d" % min(len(h), 9))
        res.nontrivial.add(ql)
        changed = "BUFFERS-CHANGED" in i
        i0 = i.split(" BUFFERS-CHANGED")[0]
        ir, mr = i0.split(" | "), m.split(" | ")
        if changed:
            res.violation(stream="Q", case=ql, impl=i, model=m, spec="caller-owned buffers unchanged", why="a caller-owned buffer or a previously returned value was modified by a later call")
            continue
        if len(ir) != len(h):
            res.violation(stream="Q", case=ql, impl=i, model=m, spec="", why="history did not complete: " + i[:200])
            continue
        bad = None
        for k, (op, r) in enumerate(zip(h, ir)):
            if op[0] == "S":
                want, xs = specd[op].rsplit(" ", 1)
                if r != want:
                    if xs == "xs=0":
                        res.known["id=F3-xtext-stream-safe class=not-xsafe MnemonicToSeed differs from PBKDF2 over true NFKD when an argument's NFKD form has a run of more than 30 modifiers (stream-safe NFKD of golang.org/x/text)"] = op
                    elif xs == "xs=u":
                        pass    # an argument is not valid UTF-8: outside the property and outside the library contract
                    else:
                        bad = (k, op, r, "MnemonicToSeed differs from the specification's seed inside a history (expected %s...)" % want[:30])
                        break
                continue
            why = judge_op(op, r, specd.get(op))
            if why:
                bad = (k, op, r, why)
                break
        if bad:
            k, op, r, why = bad
            res.violation(stream="Q", case=ql, impl=i, model=m, spec=specd.get(op), failing_op=op, failing_op_index=k, why=why)
        else:
            for k, (op, a, b) in enumerate(zip(h, ir, mr)):
                a2 = a.rsplit(" reads=", 1)[0] if op[0] == "N" else a
                if op[0] == "S":
                    continue
                if op[0] == "C":
                    (ac, av), (bc, bv) = parse_C(a2), parse_C(b)
                    same = av == bv and (same_class(ac, bc) or kind(ac) == kind(bc) == "unknown" and False)
                else:
                    same = a2 == b
                if not same:
                    res.corr_break(stream="Q", case=ql, impl=i, model=m, failing_op=op, why="model and implementation differ in a history")
                    break
    if qlines:
        res.sample({"history": qlines[0][:400], "impl": impl[0][:300]})
    res.streams["Q"] = res.streams.get("Q", 0) + len(qlines)
    return impl


def validator_pair_histories(rng, langs, quick):
    """ordered pairs (and A,B,A triples) of diverse validator inputs of one language in ONE process: a scratch buffer,
    pool or cache that survives a call shows up as a result that depends on what was validated before"""
    hist = []
    for lang in langs:
        items = gens.validator_inputs(rng, lang, n=rng.choice(WORD_COUNTS) if quick else None)
        ops = ["C %s %s" % (lang, hx(b)) for _, b in items]
        for a in range(len(ops)):
            for b in range(len(ops)):
                if a != b:
                    hist.append([ops[a], ops[b]])
        for _ in range(10):
            hist.append([rng.choice(ops) for _ in range(rng.randrange(3, 8))])
    return hist


def repeat_histories(rng, quick):
    """the SAME call (same arguments, for NewMnemonic the same bytes from the source) several times in a row"""
    hist = []
    for lang in (rng.sample(LANGS, 3) if quick else LANGS):
        for n in (rng.sample(WORD_COUNTS, 2) if quick else WORD_COUNTS):
            need = n + n // 3
            sc = gens.script_str([(rng.randbytes(need), None)])
            sc2 = gens.script_str([(p_, None) for p_ in gens.fragment(rng, rng.randbytes(need), 3)])
            hist.append(["N %d %s %s" % (n, lang, sc)] * 3)
            hist.append(["N %d %s %s" % (n, lang, sc), "N %d %s %s" % (n, lang, sc2), "N %d %s %s" % (n, lang, sc), "N %d %s %s" % (n, lang, sc)])
            e = hx(rng.randbytes(need))
            hist.append(["E %s %s" % (lang, e)] * 3)
            sent = hx(gens.sentence(lang, gens.indices_of_entropy(rng.randbytes(need))))
            hist.append(["C %s %s" % (lang, sent)] * 3)
        hist.append(["L %s" % lang] * 3)
    # a source that answers (0, nil) many times before delivering, then an ordinary call
    for k in (3, 150):
        sc = gens.script_str([(b"", None)] * k + [(rng.randbytes(16), None)])
        ordinary = gens.script_str([(b"", None), (rng.randbytes(16), None)])
        hist.append(["N 12 English %s" % sc, "N 12 English %s" % ordinary, "N 12 English %s" % gens.script_str([(b"", None)] * (k + 60)), "N 12 English %s" % ordinary])
    return hist


def seed_histories(rng, quick):
    """MnemonicToSeed call sequences: repeats, equivalent spellings in a row, arguments whose concatenation around the
    literal "mnemonic" coincides, swapped and shifted arguments"""
    import unicodedata
    W = gens.sentence("English", gens.indices_of_entropy(rng.randbytes(16)))
    J = gens.sentence("Japanese", gens.indices_of_entropy(rng.randbytes(16)))
    Jsp = gens.sentence("Japanese", gens.indices_of_entropy(rng.randbytes(16)), b" ")
    F = gens.sentence("French", gens.indices_of_entropy(rng.randbytes(16)))
    Fnfc = unicodedata.normalize("NFC", F.decode()).encode()
    S = lambda m, p_: "S %s %s" % (hx(m), hx(p_))
    hist = [
        [S(W, b"x"), S(W, b"x"), S(W, b"x")],
        [S(J, b""), S(J, b""), S(Jsp, b""), S(J, b"")],
        [S(Fnfc, b"pw"), S(Fnfc, b"pw"), S(F, b"pw"), S(Fnfc, b"pw")],
        [S(b"", b"mnemonic"), S(b"mnemonic", b"")],
        [S(b"mnemonic", b""), S(b"", b"mnemonic"), S(b"", b"")],
        [S(W, b"my mnemonic vault"), S(W + b"mnemonicmy ", b" vault")],
        [S(W + b"mnemonicmy ", b" vault"), S(W, b"my mnemonic vault")],
        [S(b"zoo", b"mnemonic wallet 1"), S(b"zoomnemonic", b" wallet 1")],
        [S(b"ab", b"c"), S(b"a", b"bc"), S(b"abc", b""), S(b"", b"abc")],
        [S(W, b"a"), S(b"a", W), S(W, b"a")],
        [S(W, b""), S(W[:-1], b""), S(W, b"")],
        [S(W, "é".encode()), S(W, "é".encode()), S(W, "é".encode())],
    ]
    for _ in range(4 if quick else 60):
        pool = [x.encode() for x in gens.nfc_like_pool()]
        args = [(b" ".join(rng.choice(pool) for _ in range(rng.randrange(1, 4))), rng.choice(pool + [b""])) for _ in range(3)]
        hist.append([S(*rng.choice(args)) for _ in range(rng.randrange(2, 7))])
    return hist


def warm_E_histories(rng, langs, e_ops_for):
    """generation AFTER the package has validated in that language (valid, unknown words at several positions, wrong
    checksum, wrong count): shared tables must be the same afterwards.  e_ops_for(lang) -> list of E op lines"""
    hist = []
    for lang in langs:
        warm = ["C %s %s" % (lang, hx(b)) for tag, b in gens.validator_inputs(rng, lang, n=12)
                if tag.split("-")[0] in ("valid", "unknown", "checksum", "count")][:8]
        hist.append(warm + e_ops_for(lang))
    return hist


def judge_op_generator(op, r, sp):
    """E ops inside a history against the specification; C ops by the validator rules"""
    if op[0] == "E" and sp is not None and sp != "unspecified":
        if strip_impl_E(r) != sp:
            return "NewMnemonicByEntropy inside a history differs from the BIP39 sentence of the specification"
        return None
    return judge_op_validator(op, r, sp)


def judge_op_validator(op, r, sp):
    f = op.split()
    if f[0] != "C" or sp is None:
        return None
    icls, iv = parse_C(r)
    if sp == "unspecified":
        return "accepted under an unsupported Language value" if (icls == "nil" or iv == "1") else None
    sacc, scls, xs = parse_spec_C(sp)
    if (iv == "1") != (icls == "nil"):
        return "IsMnemonicValid disagrees with CheckMnemonic == nil"
    return judge_common("hist", None, icls, iv, sacc, scls, xs, f[1])


def script_items(sc):
    """parse a script string back into (data, error kind or None) items"""
    if sc == "-":
        return []
    out = []
    for x in sc.split(","):
        d, e = x.split(":")
        e = e.split("@")[0]
        out.append((unhx(d), None if e == "-" else e))
    return out


def judge_op_draw(op, r, sp):
    """N ops inside a history, judged from their own script alone (C06/C09): the encoding of the first 4n/3 delivered
    bytes, or an error when fewer are delivered / the count is not accepted.  Other ops as judge_op_generator."""
    f = op.split()
    if f[0] == "N" and f[2] in LANGS:
        n = int(f[1])
        head = r.split(" used=")[0]
        if n not in WORD_COUNTS:
            return None if head == "err wordlen" else "a word count outside 12,15,18,21,24 must give ErrWordLen: " + head[:80]
        d, _ = gens.delivered(script_items(f[3]))
        need = n + n // 3
        if len(d) >= need:
            want = "ok " + hx(gens.encode(f[2], d[:need]))
            if head != want:
                return "NewMnemonic inside a history must return the encoding of the first 4n/3 bytes its own source delivers (expected %s...): %s" % (want[:40], head[:80])
        elif not head.startswith("err ") or head == "err nil":
            return "the source delivered fewer than 4n/3 bytes: NewMnemonic must fail closed, also inside a history: " + head[:80]
        return None
    return judge_op_generator(op, r, sp)


def failed_draw_histories(rng, quick):
    """a NewMnemonic call whose source fails after k > 0 bytes (or after 0), FOLLOWED by other calls in the same
    process: generation from caller entropy, further draws of every size, validation.  Anything a failed call leaves
    behind (a dirty pooled hash state or buffer, parked bytes) shows up in the calls that follow."""
    hist = []
    for lang in (rng.sample(LANGS, 3) if quick else LANGS):
        for n in WORD_COUNTS:
            need = n + n // 3
            for k in sorted(set([1, need - 1, rng.randrange(1, need), 0] if quick else range(need))):
                data = rng.randbytes(need)
                fail = "N %d %s %s" % (n, lang, gens.script_str([(data[:k], rng.choice(gens.ERR_KINDS))]))
                n2 = rng.choice(WORD_COUNTS)
                e1, e2 = rng.randbytes(rng.choice(ENT_LENS)), rng.randbytes(rng.choice(ENT_LENS))
                okdraw = lambda m: "N %d %s %s" % (m, lang, gens.script_str([(rng.randbytes(m + m // 3), None)]))
                sent = hx(gens.encode(lang, rng.randbytes(16), b" "))
                hist.append([fail, "E %s %s" % (lang, hx(e1)), "E %s %s" % (lang, hx(e2))])
                hist.append([fail, okdraw(n2), okdraw(12), okdraw(24), "E %s %s" % (lang, hx(e1))])
                hist.append([fail, fail, "C %s %s" % (lang, sent), okdraw(n), "E %s %s" % (lang, hx(e2))])
                # a failed LONG draw followed by a draw from a source that fails at once / delivers too little
                dead = "N 12 %s %s" % (lang, gens.script_str([(b"", "eof")]))
                short = "N %d %s %s" % (n2, lang, gens.script_str([(rng.randbytes(rng.randrange(0, 4)), "x1")]))
                hist.append([fail, dead, short, okdraw(n2)])
    return hist


def resize_histories(rng, quick, langs=None):
    """calls of DIFFERENT sizes one after another in one process: every ordered pair and triple of word counts for
    draws, encodings and validations (a recycled buffer that is too short or too long for the next call)"""
    hist = []
    for lang in (langs or (rng.sample(LANGS, 2) if quick else LANGS)):
        draw = lambda m: "N %d %s %s" % (m, lang, gens.script_str([(rng.randbytes(m + m // 3), None)]))
        enc = lambda m: "E %s %s" % (lang, hx(rng.randbytes(m + m // 3)))
        val = lambda m: "C %s %s" % (lang, hx(gens.encode(lang, bytes(rng.choice((0, 0, 1))) + rng.randbytes(m + m // 3 - 1), b" ")))
        triples = [(a, b, c) for a in WORD_COUNTS for b in WORD_COUNTS for c in WORD_COUNTS if not a == b == c]
        if quick:
            triples = [(12, 24, 12), (24, 12, 24), (24, 12, 15), (12, 15, 24), (21, 12, 18)] + rng.sample(triples, 20)
        for mk in (draw, enc, val):
            for a, b, c in triples:
                hist.append([mk(a), mk(b), mk(c), mk(a)])
        for _ in range(6 if quick else 60):
            hist.append([rng.choice((draw, enc, val))(rng.choice(WORD_COUNTS)) for _ in range(rng.randrange(4, 10))])
    return hist


def cross_language_histories(rng, quick):
    """the SAME sentence asked under one language and then under another (every ordered pair of languages, and
    unsupported values before supported ones): a verdict remembered under the wrong key shows up"""
    hist = []
    sents = {l: hx(gens.encode(l, rng.randbytes(rng.choice(ENT_LENS)), b" ")) for l in LANGS}
    for a in LANGS:
        for b in LANGS:
            if a != b:
                hist.append(["C %s %s" % (a, sents[b]), "C %s %s" % (b, sents[b]), "C %s %s" % (a, sents[b]), "C %s %s" % (a, sents[a])])
    for b in LANGS:
        for u in (rng.sample(range(10, 30), 3) if quick else range(10, 30)):
            hist.append(["C %d %s" % (u, sents[b]), "C %s %s" % (b, sents[b])])
            hist.append(["C %s %s" % (b, sents[b]), "C %d %s" % (u, sents[b]), "C %d %s" % (-u, sents[b])])
    return hist


def respelled_repeat_histories(rng, quick):
    """the same NON-ASCII spelling of a valid sentence validated several times in a row as the first calls of a
    process (ASCII lists included): the first call must not differ from the later ones"""
    hist = []
    for lang in LANGS:
        for n in (rng.sample(WORD_COUNTS, 2) if quick else WORD_COUNTS):
            idx = gens.indices_of_entropy(rng.randbytes(n // 3 * 4))
            base = gens.sentence(lang, idx, b" ")
            vs = [gens.sentence(lang, idx, rng.choice(gens.EQUIV_SEPS).encode()), b" ".join(gens.fullwidth(w) for w in base.split(b" "))]
            v1 = gens.respell_one_char(rng, base, "random")
            if v1:
                vs.append(v1)
            for v in vs:
                hist.append(["C %s %s" % (lang, hx(v))] * 3 + ["C %s %s" % (lang, hx(base)), "C %s %s" % (lang, hx(v))])
    return hist


def near_word_items(rng, tier, langs=LANGS):
    """otherwise valid sentences in which ONE word is replaced by a token that is almost that word: an invisible /
    default-ignorable code point added (U+034F, ZWJ, ...), a character moved to another plane (same low 16 bits), a single
    code point at a block boundary (U+9FA6.., U+FFFF, U+10000 ...).  None of them is a list word."""
    q = tier == "quick"
    items = []
    for lang in langs:
        t = gens.table(lang)
        for n in (rng.sample(WORD_COUNTS, 2) if q else WORD_COUNTS):
            idx = gens.indices_of_entropy(rng.randbytes(n // 3 * 4))
            ws = [t[i] for i in idx]
            for p_ in sorted(set([0, n - 1, rng.randrange(n)])):
                toks = [("invisible", v) for v in gens.invisible_variants(rng, ws[p_])] + [("plane-twin", v) for v in gens.plane_twins(ws[p_])]
                bc = gens.BOUNDARY_CPS if (not q or lang.startswith("Chinese")) else rng.sample(gens.BOUNDARY_CPS, 12)
                toks += [("boundary-cp", chr(c).encode()) for c in bc if not 0xD800 <= c <= 0xDFFF]
                for tag, tok in toks:
                    if tok in t:
                        continue
                    w2 = list(ws)
                    w2[p_] = tok
                    items.append((tag, lang, b" ".join(w2), None))
    return items


def piecewise_draw_histories(rng, quick):
    """single draws (and pairs) whose source delivers the needed bytes in several pieces: two halves, one byte at a time,
    empty reads in between, the last piece together with io.EOF - each judged from its own script"""
    hist = []
    for lang in (rng.sample(LANGS, 3) if quick else LANGS):
        for n in WORD_COUNTS:
            need = n + n // 3
            d = rng.randbytes(need)
            shapes = [[(d[:8], None), (d[8:], None)], [(d[i:i + 1], None) for i in range(need)], [(d[:1], None), (b"", None), (d[1:], None)],
                      [(d[:need - 1], None), (d[need - 1:], "eof")], [(p_, None) for p_ in gens.fragment(rng, d, rng.randrange(2, 6))],
                      [(d[:need // 2], None), (d[need // 2:] + b"extra", None)]]
            for sh in shapes:
                hist.append(["N %d %s %s" % (n, lang, gens.script_str(sh))])
            hist.append(["N %d %s %s" % (n, lang, gens.script_str(sh)) for sh in rng.sample(shapes, 2)])
    return hist


def C03(tier, seed, st):
    res = Result("C03")
    rng = random.Random(seed)
    q = tier == "quick"
    check_K(res, random.Random(seed + 17), "quick")
    items = []
    # damaged sentences
    for lang in LANGS:
        for n in WORD_COUNTS:
            for _ in range(1 if q else 6):
                idx = gens.indices_of_entropy((bytes(rng.choice((0, 1, 2, 4, 5, 8, n // 3 * 4 - 1))) + rng.randbytes(n // 3 * 4))[:n // 3 * 4])
                for tag, b in gens.damaged(rng, lang, idx):
                    items.append((tag, lang, b, None))
                # substitutions at each position
                t = gens.table(lang)
                for p in range(n):
                    for w in (rng.sample(range(2048), 3 if q else 60)):
                        i2 = list(idx)
                        i2[p] = w
                        items.append(("subst", lang, gens.sentence(lang, i2, b" "), None))
    items += affix_items(rng, tier)
    items += near_word_items(rng, tier)
    for lang in LANGS:
        for n in WORD_COUNTS:
            for idx in ([0] * n, [2047] * n, [0] * (n - 1) + [rng.randrange(2048)], [0] * (n - 1) + [2047], [2047] + [0] * (n - 1), [0] * (n - 1) + [1]):
                items.append(("degenerate-indices", lang, gens.sentence(lang, idx, b" "), None))
    # unsupported Language values never accept
    for u in UNSUPPORTED:
        idx = gens.indices_of_entropy(rng.randbytes(16))
        items.append(("unsupported", u, gens.sentence("English", idx), None))
    run_C(res, items, lambda *a: judge_common(*a))
    # the same string validated under one language and then asked under others, in one process
    hist = []
    for lang in LANGS:
        for n in (rng.sample(WORD_COUNTS, 2) if q else WORD_COUNTS):
            sent = hx(gens.sentence(lang, gens.indices_of_entropy(rng.randbytes(n // 3 * 4)), b" "))
            others = rng.sample([l for l in LANGS if l != lang] + UNSUPPORTED[:3], 4)
            hist.append(["C %s %s" % (lang, sent)] + ["C %s %s" % (o, sent) for o in others] + ["C %s %s" % (lang, sent)])
    hist += validator_pair_histories(rng, rng.sample(LANGS, 2) if q else LANGS, q)
    hist += cross_language_histories(rng, q)
    run_Q(res, hist, judge_op_validator)
    # membership by volume: millions of pseudo-random letter tokens in front of eleven list words; every token that
    # is not a list word must be reported as the unknown word (a lookup by hash, prefix or anything looser than
    # equality shows up as a token that is not)
    per = (1 << 19) if q else (1 << 23)
    mp, mpl = [], []
    for lang in LANGS:
        idx = gens.indices_of_entropy(rng.randbytes(16))[1:]
        tail = gens.sentence(lang, idx, b" ")
        for k in range(16):
            mp.append("MP %s %d %d %s" % (lang, per // 16 if q else per // 16, rng.randrange(1, 2 ** 40), hx(tail)))
            mpl.append((lang, tail))
    for ln, (lang, tail), r in zip(mp, mpl, common.run_impl(mp)):
        res.evaluations += int(ln.split()[2])
        res.count("MP/probes", int(ln.split()[2]))
        if r.startswith("hit "):
            for tok in r[4:].split(","):
                if unhx(tok) in gens.table(lang):
                    continue       # the random token happens to be a list word
                case = "C %s %s" % (lang, hx(unhx(tok) + b" " + tail))
                sp = common.run_model([case], "spec")[0]
                im = common.run_impl([case])[0]
                res.violation(stream="MP", case=case, impl=im, model="", spec=sp,
                              why="a token that is not a word of the list is not reported as unknown (membership is decided by something looser than equality)")
        elif r != "ok":
            res.corr_break(stream="MP", case=ln[:200], impl=r[:200], why="membership probe failed to run")
    res.streams["MP"] = len(mp)
    # all 2048 candidate last words for a prefix: count and set against the specification
    prefixes = []
    for lang in (rng.sample(LANGS, 3) if q else LANGS):
        for n in WORD_COUNTS:
            for z in ((0,) if q else (0, 1, 2)):
                e = bytes(z) + rng.randbytes(n // 3 * 4 - z)
                prefixes.append((lang, n, gens.indices_of_entropy(e)[:n - 1]))
    # prefixes whose entropy starts with MANY zero bytes (4, 5, 8, all but one, all): the recovered integer is short
    for n in WORD_COUNTS:
        el = n // 3 * 4
        for z in (rng.sample([4, 5, 8, 12, el - 1, el], 1) if q else [3, 4, 5, 7, 8, 9, 12, 13, 16, el - 2, el - 1, el]):
            e = bytes(z) + rng.randbytes(el - z)
            prefixes.append((rng.choice(LANGS), n, gens.indices_of_entropy(e)[:n - 1]))
    lines = []
    for lang, n, pre in prefixes:
        for j in range(2048):
            lines.append("C %s %s" % (lang, hx(gens.sentence(lang, pre + [j], b" "))))
    impl = common.run_impl(lines)
    spec = common.run_model(lines, "spec")
    model = common.run_model(lines, "model")
    for k, (lang, n, pre) in enumerate(prefixes):
        sl = slice(k * 2048, (k + 1) * 2048)
        acc_i = {j for j, r in enumerate(impl[sl]) if r.startswith("nil")}
        acc_s = {j for j, r in enumerate(spec[sl]) if r.startswith("accept")}
        acc_m = {j for j, r in enumerate(model[sl]) if r.startswith("nil")}
        res.evaluations += 2048
        res.count("C/lastword-sweep", 2048)
        res.nontrivial.add("sweep %s %d %s" % (lang, n, pre))
        want = 2 ** (11 - n // 3)
        if acc_i != acc_s or len(acc_i) != want:
            bad = sorted(acc_i ^ acc_s)
            j = bad[0] if bad else 0
            res.violation(stream="C", case=lines[k * 2048 + j], impl=impl[k * 2048 + j], model=model[k * 2048 + j], spec=spec[k * 2048 + j],
                          why="accepted last words for a fixed prefix: implementation accepts %d, specification %d, expected %d; first differing index %d" % (len(acc_i), len(acc_s), want, j))
        elif acc_i != acc_m:
            res.corr_break(stream="C", case="sweep %s %d" % (lang, n), impl=len(acc_i), model=len(acc_m), why="model and implementation differ")
    res.streams["C"] += len(lines)
    res.sample({"sweep": "all 2048 last words", "prefix": prefixes[0][2], "lang": prefixes[0][0], "accepted": 2 ** (11 - prefixes[0][1] // 3)})
    # validation calls made by several goroutines at once (valid, wrong checksum, unknown word, wrong count)
    def _vop():
        l = rng.choice(LANGS)
        tag, b = rng.choice(gens.validator_inputs(rng, l, n=rng.choice(WORD_COUNTS)))
        return "C %s %s" % (l, hx(b))
    concurrent_stream(res, rng, _vop, programs=3 if tier == "quick" else 20)
    return res


def C15(tier, seed, st):
    res = Result("C15")
    rng = random.Random(seed)
    q = tier == "quick"
    check_K(res, random.Random(seed + 17), "quick")
    items = []
    for lang in LANGS:
        t = gens.table(lang)
        for n in WORD_COUNTS:
            cs = n // 3
            for rep_ in range(2 if q else 6):
                zl = (0, rng.choice((4, 5, 8, n // 3 * 4 - 1)), 0, 1, 2, 3)[rep_]     # also entropies that start with many zero bytes
                idx = gens.indices_of_entropy(bytes(zl) + rng.randbytes(n // 3 * 4 - zl))
                # only the count is wrong
                for k in (n - 1, n + 1, 9, 27, 11, 13):
                    ws = (idx * 3)[:k]
                    items.append(("only-count", lang, gens.sentence(lang, ws, b" "), None))
                # only the checksum is wrong: every other value of the checksum bits (quick: a sample)
                last = idx[-1]
                others = [v for v in range(1 << cs) if v != (last & ((1 << cs) - 1))]
                for v in (rng.sample(others, min(4, len(others))) if q else others):
                    i2 = idx[:-1] + [(last >> cs << cs) | v]
                    items.append(("only-checksum", lang, gens.sentence(lang, i2), None))
                # one unknown token at each position (count fine); two unknown tokens: the first is named
                for p in range(n):
                    ws = [t[i] for i in idx]
                    ws[p] = rng.choice([b"zzzz", b"Xx", "é".encode(), b"\xff", ws[p] + b"x"])
                    items.append(("unknown-at", lang, b" ".join(ws), None))
                ws = [t[i] for i in idx]
                a, b2 = sorted(rng.sample(range(n), 2))
                ws[a], ws[b2] = b"first-bad", b"second-bad"
                items.append(("unknown-two", lang, b" ".join(ws), None))
                # count and words wrong: the count wins
                items.append(("count-and-unknown", lang, b" ".join([b"qq"] * (n + 1)), None))
    items += affix_items(rng, tier)
    items += near_word_items(rng, tier)
    for lang in LANGS:
        for n in (rng.sample(WORD_COUNTS, 2) if q else WORD_COUNTS):
            for tag, b in gens.damaged(rng, lang, gens.indices_of_entropy(rng.randbytes(n // 3 * 4))):
                items.append((tag, lang, b, None))
    # unknown tokens that look like formatting directives
    for lang in LANGS:
        idx = gens.indices_of_entropy(rng.randbytes(16))
        ws = [gens.table(lang)[i] for i in idx]
        for tok in (b"lottery%20tool", b"%s", b"100%d", b"%v%v", b"a%", b"%!d(MISSING)", b"%[3]*.[2]*[1]f"):
            p_ = rng.randrange(12)
            w2 = list(ws)
            w2[p_] = tok
            items.append(("unknown-percent", lang, b" ".join(w2), None))
    run_C(res, items, lambda *a: judge_common(*a))
    # the same kinds of sentences one after another in one process: the class must not depend on what came before
    run_Q(res, validator_pair_histories(rng, rng.sample(LANGS, 2) if q else LANGS, q) + cross_language_histories(rng, q), judge_op_validator)
    # validation calls made by several goroutines at once (valid, wrong checksum, unknown word, wrong count)
    def _vop():
        l = rng.choice(LANGS)
        tag, b = rng.choice(gens.validator_inputs(rng, l, n=rng.choice(WORD_COUNTS)))
        return "C %s %s" % (l, hx(b))
    concurrent_stream(res, rng, _vop, programs=3 if tier == "quick" else 20)
    return res


def C10(tier, seed, st):
    res = Result("C10")
    rng = random.Random(seed)
    q = tier == "quick"
    check_K(res, random.Random(seed + 17), tier)
    check_K_singletons(res, None if not q else (seed % 16, 16))
    pairs = []   # (tag, lang, base bytes, variant bytes)
    for lang in LANGS:
        t = gens.table(lang)
        words = range(2048)
        if q:
            words = range(rng.randrange(8), 2048, 8)
        for w in words:
            sp_ = gens.spellings(t[w])
            if not sp_:
                continue
            n = WORD_COUNTS[w % 5]
            pos = (w * 5) % n
            idx = gens.sentence_with_word(rng, lang, n, pos, w)
            base = [t[i] for i in idx]
            for form, v in sp_.items():
                var = list(base)
                var[pos] = v
                sepv = rng.choice(gens.EQUIV_SEPS).encode()
                pairs.append(("word-" + form, lang, b" ".join(base), sepv.join(var)))
        # ONE substring of a word written as a single compatibility code point (ideograph twins and radicals, circled /
        # squared / parenthesised letters, roman numerals, ligatures, mathematical alphabets ...), nothing else changed:
        # with plain U+0020 separators and with an equivalent separator
        for w in (range(rng.randrange(8), 2048, 8) if q else range(2048)):
            cr = gens.compat_respellings(rng, t[w], 3 if q else 12)
            if not cr:
                continue
            n = WORD_COUNTS[w % 5]
            pos = rng.choice((0, n - 1, (w * 5) % n))
            idx = gens.sentence_with_word(rng, lang, n, pos, w)
            base = [t[i] for i in idx]
            for cat, v in cr:
                var = list(base)
                var[pos] = v
                pairs.append(("compat-" + cat, lang, b" ".join(base), b" ".join(var)))
                if rng.random() < 0.3:
                    pairs.append(("compat-" + cat, lang, b" ".join(base), rng.choice(gens.EQUIV_SEPS).encode().join(var)))
        # whole sentence in another form / separator
        for n in WORD_COUNTS:
            idx = gens.indices_of_entropy(rng.randbytes(n // 3 * 4))
            base = gens.sentence(lang, idx, b" ")
            for sepv in gens.EQUIV_SEPS:
                pairs.append(("sep", lang, base, gens.sentence(lang, idx, sepv.encode())))
            for form in ("NFC", "NFD", "NFKC"):
                import unicodedata
                pairs.append(("sentence-" + form, lang, base, unicodedata.normalize(form, base.decode()).encode()))
            pairs.append(("sentence-fullwidth", lang, base, b" ".join(gens.fullwidth(w) for w in base.split(b" "))))
            # only ONE character respelled: the first, the last, a random one
            for where in ("first", "last", "random", "random"):
                v = gens.respell_one_char(rng, base, where)
                if v:
                    pairs.append(("one-char-" + where, lang, base, v))
            # invalid sentences too: equal NFKD forms must get equal verdicts
            bad = list(idx)
            bad[-1] ^= 1
            b1 = gens.sentence(lang, bad, b" ")
            pairs.append(("invalid-sep", lang, b1, gens.sentence(lang, bad, "　".encode())))
    pool = gens.nfc_like_pool()
    import unicodedata
    for _ in range(60 if q else 1500):
        s = " ".join("".join(rng.choice(pool) for _ in range(rng.randrange(1, 4))) for _ in range(rng.choice((1, 12, 12, 15, 24))))
        form = rng.choice(("NFC", "NFD", "NFKC", "NFKD"))
        pairs.append(("arbitrary-" + form, rng.choice(LANGS), s.encode(), unicodedata.normalize(form, s).encode()))
    # decide equality of NFKD forms with the Coq NFKD
    kl = []
    for tag, lang, a, b in pairs:
        kl.append("K " + hx(a))
        kl.append("K " + hx(b))
    kn = common.run_model(kl, "spec")
    lines = []
    for tag, lang, a, b in pairs:
        lines.append("C %s %s" % (lang, hx(a)))
        lines.append("C %s %s" % (lang, hx(b)))
    impl, model, spec = three_way(lines)
    for k, (tag, lang, a, b) in enumerate(pairs):
        res.evaluations += 2
        res.count("pair/" + tag)
        na, nb = kn[2 * k].split()[0], kn[2 * k + 1].split()[0]
        ia, ib = impl[2 * k], impl[2 * k + 1]
        ca, cb = parse_C(ia)[0], parse_C(ib)[0]
        if a != b:
            res.nontrivial.add(lines[2 * k + 1])
        if na != nb:
            res.count("pair-not-equivalent")
            continue
        if kn[2 * k].endswith("xs=u") or kn[2 * k + 1].endswith("xs=u"):
            res.count("pair-invalid-utf8")
            continue
        xs = kn[2 * k].endswith("xs=1")
        sacc = " class=nil " in spec[2 * k] and spec[2 * k].startswith("accept")
        why = None
        if (ca == "nil") != (cb == "nil"):
            why = "two strings with the same NFKD form get different verdicts"
        elif sacc and ca != "nil":
            why = "a valid mnemonic is rejected in this spelling"
        elif xs and kind(ca) != kind(cb):
            why = "two strings with the same NFKD form get different error classes"
        if why:
            res.violation(stream="C", case=lines[2 * k + 1], other_case=lines[2 * k], impl=ib, impl_other=ia, model=model[2 * k + 1], spec=spec[2 * k + 1], tag=tag, why=why)
        else:
            for j in (2 * k, 2 * k + 1):
                if (parse_C(impl[j])[0] == "nil") != (parse_C(model[j])[0] == "nil"):
                    res.corr_break(stream="C", case=lines[j], impl=impl[j], model=model[j], why="model and implementation differ")
    res.sample({"pair": [lines[1][:200], lines[0][:200]], "impl": [impl[1], impl[0]]})
    res.streams["C"] = len(lines)
    res.streams["K"] = len(kl)
    # the same respelled sentence as the FIRST calls of a process, several times in a row
    run_Q(res, respelled_repeat_histories(rng, q), judge_op_validator)
    # respelled sentences validated by several goroutines at once
    def _rop():
        l = rng.choice(LANGS)
        idx = gens.indices_of_entropy(rng.randbytes(rng.choice(ENT_LENS)))
        return "C %s %s" % (l, hx(gens.sentence(l, idx, rng.choice(gens.EQUIV_SEPS).encode())))
    concurrent_stream(res, rng, _rop, programs=3 if q else 20)
    return res


# ---------------------------------------------------------------- C06
def C06(tier, seed, st):
    res = Result("C06")
    rng = random.Random(seed)
    q = tier == "quick"
    lines, meta = [], []
    def add(n, lang, items, tag):
        lines.append("N %d %s %s" % (n, lang, gens.script_str(items)))
        meta.append((n, lang, items, tag))
    for n in WORD_COUNTS:
        need = n + n // 3
        for lang in (rng.sample(LANGS, 2) if q else LANGS):
            data = rng.randbytes(need + 8)
            # every failure point k < need x failure kind x bytes alongside or not
            for k in range(need):
                for e in gens.ERR_KINDS:
                    add(n, lang, [(data[:k], e)], "fail-with-bytes")
                    add(n, lang, [(data[:k], None), (b"", e)], "fail-after-bytes")
                if not q or k % 4 == 2:
                    # the error is reported ONCE (with or without bytes) and the source would deliver more if read again
                    e = rng.choice(gens.ERR_KINDS)
                    add(n, lang, [(data[:k], e), (data[k:], None)], "error-once-then-data")
                    add(n, lang, [(data[:k], None), (b"", e), (data[k:], None)], "error-once-then-data")
                if not q or k % 4 == 1:
                    # a source that KEEPS failing (the same error on every further read), with bytes trickling in or not
                    e = rng.choice(gens.ERR_KINDS)
                    add(n, lang, [(data[:k], e)] + [(b"", e)] * 6, "keeps-failing")
                    add(n, lang, [(data[:k // 2], e), (data[k // 2:k], e)] + [(b"", e)] * 6, "keeps-failing")
                if not q or k % 4 == 0:
                    cut = rng.randrange(k + 1)
                    add(n, lang, [(data[:cut], None), (data[cut:k], rng.choice(gens.ERR_KINDS))], "fail-fragmented")
                    add(n, lang, [(data[:k], None)], "script-ends")
            # error together with the last needed bytes (success per io.ReadFull), and after them
            for e in gens.ERR_KINDS:
                add(n, lang, [(data[:need], e)], "error-with-last-bytes")
                add(n, lang, [(data[:need - 1], None), (data[need - 1:need], e)], "error-with-last-bytes")
                add(n, lang, [(data[:need + 3], e)], "overlong-with-error")
            # all 2-fragmentations, random k-fragmentations incl. empty reads, one byte at a time, over-long
            for c in (range(need + 1) if not q else rng.sample(range(need + 1), 6)):
                add(n, lang, [(data[:c], None), (data[c:need], None)], "frag2")
            for _ in range(4 if q else 40):
                parts = gens.fragment(rng, data[:need], rng.randrange(2, 9))
                add(n, lang, [(p, None) for p in parts] + [(b"", "eof")], "fragk")
            add(n, lang, [(data[i:i + 1], None) for i in range(need)], "bytewise")
            add(n, lang, [(data, None)], "overlong")
            add(n, lang, [(b"", None), (b"", None), (data[:need], None)], "empty-reads-first")
            # a healthy source may deliver long runs of identical bytes, counters, constants
            for sd in gens.stuck_sources(rng, need):
                add(n, lang, [(sd, None)], "runs-of-identical-bytes")
                add(n, lang, [(sd[:need], "eof")], "runs-of-identical-bytes")
        # a source that blocks for seconds before delivering (a blocked entropy pool): still not a failure
        lang = rng.choice(LANGS)
        data = rng.randbytes(need)
        add(n, lang, [(data[:5], None), (data[5:need], None, 2600 if q else 7000)], "slow-source")
        add(n, lang, [(data[:need - 1], None, 2600), (b"", "eof")], "slow-source-then-eof")
    impl = common.run_impl(lines)
    model = common.run_model(lines, "model")
    # expected by the property, computed from the script: encoding (by the specification) of the first need delivered bytes
    el, eidx = [], []
    for k, (n, lang, items, tag) in enumerate(meta):
        d, _ = gens.delivered(items)
        need = n + n // 3
        if len(d) >= need:
            el.append("E %s %s" % (lang, hx(d[:need])))
            eidx.append(k)
    es = dict(zip(eidx, common.run_model(el, "spec")))
    for k, ((n, lang, items, tag), ln, i, m) in enumerate(zip(meta, lines, impl, model)):
        res.evaluations += 1
        res.count("N/%d/%s" % (n, tag))
        res.nontrivial.add(ln)
        head = i.split(" used=")[0]
        if k in es:
            want = es[k]
            if head != want:
                res.violation(stream="N", case=ln, impl=i, model=m, spec=want,
                              why="NewMnemonic must return the encoding of the first 4n/3 delivered bytes")
                continue
            sp = gens.sep(lang)
            if len(unhx(head[3:]).split(sp)) != n:
                res.violation(stream="N", case=ln, impl=i, model=m, spec="%d words" % n, why="wrong number of words")
                continue
        else:
            if not head.startswith("err ") or head == "err nil":
                res.violation(stream="N", case=ln, impl=i, model=m, spec="empty string and a non-nil error",
                              why="the source delivered fewer than 4n/3 bytes: NewMnemonic must fail closed")
                continue
        if i.rsplit(" reads=", 1)[0] != m:
            res.corr_break(stream="N", case=ln, impl=i, model=m, why="model and implementation differ")
    # io.ReadFull alone
    rl = ["R %d %s" % (meta[k][0] + meta[k][0] // 3, gens.script_str(meta[k][2])) for k in range(0, len(meta), 7)]
    ri, rm = common.run_impl(rl), common.run_model(rl, "model")
    for ln, a, b in zip(rl, ri, rm):
        res.evaluations += 1
        if a != b:
            res.corr_break(stream="R", case=ln, impl=a, model=b, why="read_full differs from io.ReadFull")
    res.sample({"case": lines[5], "impl": impl[5]})
    res.sample({"case": lines[-1][:200], "impl": impl[-1][:200]})
    res.streams["N"] = len(lines)
    res.streams["R"] = len(rl)
    # ONE reader object over two consecutive calls (a source is a stream: the second call continues where the first
    # stopped).  The first call fails k bytes in (error at a response boundary) or succeeds exactly; by conservation
    # (C06_takes_exactly: what the source still holds afterwards is the rest of the script) the second call must
    # behave as the model does on the rest alone - bytes a failed call had already received are never reused.
    n2, exp2 = [], []
    for n1 in WORD_COUNTS:
        need1 = n1 + n1 // 3
        for n2_ in (rng.sample(WORD_COUNTS, 2) if q else WORD_COUNTS):
            need2 = n2_ + n2_ // 3
            lang = rng.choice(LANGS)
            for k in sorted(set([0, 1, need1 // 2, need1 - 1, need1])):
                for e in (gens.ERR_KINDS if k < need1 else [None]):
                    first = [(rng.randbytes(k), e)]
                    second = gens.fragment(rng, rng.randbytes(need2), rng.randrange(1, 4))
                    second = [(p_, None) for p_ in second]
                    n2.append("N2 %d %d %s %s %s" % (n1, n2_, lang, gens.script_str(first), gens.script_str(second)))
                    exp2.append(("N %d %s %s" % (n1, lang, gens.script_str(first)), "N %d %s %s" % (n2_, lang, gens.script_str(second))))
    i2 = common.run_impl(n2)
    m2 = common.run_model([x for pr in exp2 for x in pr], "model")
    for ln, a, k in zip(n2, i2, range(len(n2))):
        res.evaluations += 1
        res.count("N2/one-reader-two-calls")
        res.nontrivial.add(ln)
        want = m2[2 * k] + " || " + m2[2 * k + 1]
        if a != want:
            res.violation(stream="N2", case=ln, impl=a, model=want, spec=want,
                          why="two calls on one reader object: the second is not the encoding of the bytes the source delivered to IT (bytes of the earlier call reused, or bytes skipped)")
    res.streams["N2"] = len(n2)
    # draws AFTER failed draws in one process: each is judged from its own script alone
    run_Q(res, failed_draw_histories(rng, q), judge_op_draw)
    # concurrent draws from the default source after failed draws (prelude with a scripted failing source)
    drawn = concurrent_stream(res, rng, lambda: "N %d %s -" % (rng.choice(WORD_COUNTS), rng.choice(LANGS)), programs=2 if q else 12,
                              pre=lambda: ["N %d English %s" % (n_, gens.script_str([(rng.randbytes(rng.randrange(1, n_)), rng.choice(gens.ERR_KINDS))])) for n_ in rng.sample(WORD_COUNTS, 2)])
    check_drawn(res, drawn)
    return res


# ---------------------------------------------------------------- C13
def random_op(rng, langs_pool):
    lang = rng.choice(langs_pool)
    k = rng.random()
    if k < 0.22:
        el = rng.choice(ENT_LENS + [0, 15, 33])
        return "E %s %s" % (lang, hx(rng.randbytes(el)) if el else "-")
    if k < 0.40:
        n = rng.choice(WORD_COUNTS + [0, 13, 27, -3])
        need = max(0, n + n // 3)
        data = rng.randbytes(need + 2)
        mode = rng.random()
        if mode < 0.6:
            items = [(p_, None) for p_ in gens.fragment(rng, data[:need], rng.randrange(1, 4))]
        else:
            cut = rng.randrange(need + 1)
            items = [(data[:cut], rng.choice(gens.ERR_KINDS))]
        return "N %d %s %s" % (n, lang, gens.script_str(items))
    if k < 0.80:
        base = rng.choice(LANGS)
        n = rng.choice(WORD_COUNTS)
        idx = gens.indices_of_entropy(rng.randbytes(n // 3 * 4))
        mode = rng.random()
        if mode < 0.25:
            idx[-1] ^= 1
        elif mode < 0.35:
            idx = idx[:-1]
        sent = gens.sentence(base, idx)
        use = base if rng.random() < 0.7 else lang
        return "C %s %s" % (use, hx(sent))
    if k < 0.88:
        return "S %s %s" % (hx(rng.choice([b"abandon about", "パスワード".encode(), b""])), hx(rng.choice([b"", b"TREZOR", "é".encode()])))
    return "L %s" % rng.choice(langs_pool)


def C13(tier, seed, st):
    res = Result("C13")
    rng = random.Random(seed)
    q = tier == "quick"
    pool = LANGS + UNSUPPORTED[:5]
    hist = []
    # every ordered pair of first-used languages (quick: a sample), validation then generation
    pairs = [(a, b) for a in LANGS for b in LANGS]
    for a, b in pairs:
        sa = hx(gens.sentence(a, gens.indices_of_entropy(rng.randbytes(16))))
        sb = hx(gens.sentence(b, gens.indices_of_entropy(rng.randbytes(16))))
        hist.append(["C %s %s" % (a, sa), "C %s %s" % (b, sb), "C %s %s" % (a, sb), "C %s %s" % (b, sa), "C %s %s" % (a, sa)])
    # histories that begin with failures / unsupported values, then use the languages they might have poisoned
    for u in UNSUPPORTED[:5]:
        for base in (rng.sample(LANGS, 3) if q else LANGS):
            sent = hx(gens.sentence(base, gens.indices_of_entropy(rng.randbytes(20))))
            hist.append(["C %s %s" % (u, sent), "E %s %s" % (u, hx(rng.randbytes(16))), "C %s %s" % (base, sent), "C %s %s" % (u, sent), "L %s" % u])
            hist.append(["C %s %s" % (base, "-"), "C %s %s" % (base, hx(b"x y z")), "C %s %s" % (u, sent), "C %s %s" % (base, sent)])
    # the very first call of a process: degenerate arguments under every language (zero values of any memo)
    for base in LANGS + UNSUPPORTED[:2]:
        hist.append(["C %s -" % base, "C %s %s" % (base, hx(b" "))])
        hist.append(["S - -", "C %s -" % base])
        hist.append(["E %s -" % base, "N 0 %s -" % base, "L %s" % base])
    # slices of one backing array: a later call must not see bytes written by an earlier one
    for _ in range(6 if q else 60):
        lang = rng.choice(LANGS)
        e = rng.randbytes(32)
        hist.append(["E %s %s" % (lang, hx(e[:16])), "E %s %s" % (lang, hx(e[16:])), "E %s %s" % (lang, hx(e)), "E %s %s" % (lang, hx(e[:16]))])
    # validator inputs of every kind after one another; seed derivations after one another
    hist += validator_pair_histories(rng, rng.sample(LANGS, 2) if q else LANGS, q)
    hist += seed_histories(rng, q)
    hist += repeat_histories(rng, q)
    hist += failed_draw_histories(rng, q) + resize_histories(rng, q) + cross_language_histories(rng, q) + respelled_repeat_histories(rng, q)
    # generation after validation
    hist += warm_E_histories(rng, LANGS, lambda lang: ["E %s %s" % (lang, hx(rng.randbytes(rng.choice(ENT_LENS)))) for _ in range(4)])
    # random histories
    for _ in range(60 if q else 1500):
        hist.append([random_op(rng, pool) for _ in range(rng.randrange(2, 9))])
    # the history-free reference: every distinct op run ALONE in a fresh process
    uniq = sorted(set(op for h in hist for op in h))
    alone = dict(zip(uniq, common.run_impl(["Q " + op for op in uniq])))
    res.evaluations += len(uniq)
    def judge(op, r, sp):
        a = alone[op].split(" BUFFERS-CHANGED")[0]
        if r != a:
            return "result depends on the history: alone it returns `%s`" % a[:160]
        return judge_op_draw(op, r, sp)
    run_Q(res, hist, judge)
    res.streams["alone"] = len(uniq)
    res.notes.append("E ops in a history keep the caller's entropy slice and every returned seed/string alive and re-inspect them after the last call; sub-slices of one backing array are passed as separate arguments")
    # the same kinds of calls from several goroutines at once (results must be those of the calls run alone)
    concurrent_stream(res, rng, lambda: random_op(rng, LANGS), programs=3 if q else 20)
    return res


# ---------------------------------------------------------------- C14
def C14(tier, seed, st):
    res = Result("C14")
    rng = random.Random(seed)
    q = tier == "quick"
    lines, big = [], []
    span = 3000 if q else 70000
    langvals = list(range(-span, span + 1, 1 if not q else 7)) + list(range(-300, 301))
    for k in (7, 8, 15, 16, 31, 32, 62, 63):
        for d in (-1, 0, 1):
            for sg in (1, -1):
                v = sg * 2 ** k + d
                if -2 ** 63 <= v < 2 ** 63:
                    langvals.append(v)
    sent = hx(gens.sentence("English", gens.indices_of_entropy(bytes(16))))
    for v in langvals:
        lines.append("L %d" % v)
        lines.append("C %d %s" % (v, sent))
        lines.append("E %d %s" % (v, hx(rng.randbytes(rng.choice(ENT_LENS)))))
        if v % 5 == 0:
            lines.append("N %d %d %s" % (rng.choice(WORD_COUNTS), v, gens.script_str([(rng.randbytes(33), None)])))
    # entropy: nil, short, oversized
    for n in list(range(0, 80)) + [127, 128, 255, 256, 1000, 4096, 65536]:
        lines.append("E %s %s" % (rng.choice(LANGS), hx(rng.randbytes(n)) if n else rng.choice(["-", "nil"])))
    # word counts
    for c in list(range(-50, 60)) + [2 ** 31 - 1, -2 ** 31, 2 ** 63 - 1, -2 ** 63, 2 ** 62 + 12, 2 ** 62 + 24, -2 ** 63 + 12, 2 ** 32 + 12]:
        lines.append("N %d %s %s" % (c, rng.choice(LANGS), gens.script_str([(rng.randbytes(40), None)])))
        lines.append("N %d %s -" % (c, rng.choice(LANGS)))
    # strings: empty, invalid UTF-8, lone surrogates, overlong forms, combining runs, long tokens, many separators
    weird = [b"", b" ", b"  "] + [bytes.fromhex(h) for h in ("ff", "c080", "eda080", "f4908080", "e380", "00", "610062", "80" * 64, "f09f9880" * 30)]
    weird += [chr(0x301).encode() * 40, chr(0x1161).encode() * 40, chr(0xFDFA).encode() * 20, " ".join([chr(0x8A9E) * 20] * 12).encode(),
              (" " * 23).encode(), (chr(0x3000) * 11).encode(), (chr(0xE9) * 50).encode()]
    for w in weird:
        for lang in (rng.sample(LANGS, 3) + ["-1"]):
            lines.append("C %s %s" % (lang, hx(w)))
            # as one token of an otherwise acceptable sentence
            ws = [b"abandon"] * 11 + [w]
            lines.append("C %s %s" % (lang, hx(b" ".join(ws))))
        lines.append("S %s %s" % (hx(w), hx(w)))
    for tag, lang, b, _ in near_word_items(rng, tier):
        lines.append("C %s %s" % (lang, hx(b)))
    # degenerate index patterns: every word the first / the last word of the list, zero prefix with any last word
    for lang in LANGS:
        for n in WORD_COUNTS:
            for idx in ([0] * n, [2047] * n, [0] * (n - 1) + [rng.randrange(2048)], [0] * (n - 1) + [2047], [2047] + [0] * (n - 1), [0] * (n - 1) + [1]):
                lines.append("C %s %s" % (lang, hx(gens.sentence(lang, idx, b" "))))
    for lang in LANGS:
        ws = [gens.table(lang)[i] for i in gens.indices_of_entropy(rng.randbytes(16))]
        for w in weird:
            lines.append("C %s %s" % (lang, hx(b" ".join(ws[:11] + [w]))))
            lines.append("C %s %s" % (lang, hx(b" ".join([w] + ws[1:]))))
    for _ in range(150 if q else 3000):
        n = rng.choice((1, 2, 3, 7, 30, 200))
        b = rng.randbytes(n)
        lines.append("C %s %s" % (rng.choice(LANGS + ["77"]), hx(b)))
        lines.append("C %s %s" % (rng.choice(LANGS), hx(b" ".join(rng.randbytes(rng.randrange(1, 5)) for _ in range(rng.choice(WORD_COUNTS))))))
        if n < 40:
            lines.append("S %s %s" % (hx(b), hx(rng.randbytes(n))))
    # huge inputs: implementation only (under recover and a wall-clock limit)
    for size in ((1 << 16, 1 << 18) if q else (1 << 16, 1 << 20, 1 << 22)):
        for mk in (lambda k: b"a" * k, lambda k: b"abandon " * (k // 8), lambda k: rng.randbytes(k), lambda k: ("́".encode() * (k // 2)), lambda k: b" " * k):
            b = mk(size)
            big.append("C %s %s" % (rng.choice(LANGS), hx(b)))
            big.append("S %s %s" % (hx(b[:size // 4]), hx(b[:1000])))
        big.append("E English %s" % hx(rng.randbytes(size)))
    impl = common.run_impl(lines)
    model = common.run_model(lines, "model")
    bi = common.run_impl(big, shards=4)
    # calls of different sizes after one another, draws after failed draws: no panic in any history
    def judge_panic(op, r, sp):
        return "an exported function panicked or did not return inside a history: " + r[:120] if ("panic" in r or "hang" in r) else None
    run_Q(res, resize_histories(rng, q) + failed_draw_histories(rng, q), judge_panic)
    for ln, i in zip(lines + big, impl + bi):
        res.evaluations += 1
        f = ln.split()
        res.count(f[0] + ("/huge" if len(ln) > 100000 else ""))
        res.nontrivial.add(ln if len(ln) < 400 else hashlib.sha256(ln.encode()).hexdigest())
        if "panic" in i.split() or "hang" in i.split() or i.startswith("panic") or "valid=panic" in i or "valid=hang" in i:
            res.violation(stream=f[0], case=ln if len(ln) < 4000 else ln[:200] + "...(%d hex digits)" % len(ln), impl=i[:300], model="", spec="returns normally",
                          why="an exported function panicked or did not return")
    for ln, i, m in zip(lines, impl, model):
        f = ln.split()
        if f[0] == "S":
            continue
        a = i.rsplit(" reads=", 1)[0] if f[0] == "N" else strip_impl_E(i)
        if f[0] == "C":
            try:
                unhx(f[2]).decode("utf-8")
            except UnicodeDecodeError:
                continue    # not valid UTF-8: the library contract says nothing about the tokens the library produces
            # outside xsafe only the verdict is comparable; cheap test: compare classes by kind
            ka, km = kind(parse_C(a)[0]), kind(parse_C(m)[0])
            ka = "unknown" if ka == "other" else ka     # a non-sentinel error in a wording the harness does not parse
            same = ka == km and parse_C(a)[1] == parse_C(m)[1]
        else:
            same = a == m
        if not same and "panic" not in i:
            res.corr_break(stream=f[0], case=ln[:2000], impl=i[:300], model=m[:300], why="model and implementation differ")
    res.sample({"case": "L -1", "impl": impl[lines.index("L -1")]})
    res.sample({"case": lines[-1][:120], "impl": impl[-1][:120]})
    res.sample({"huge": "%d-byte inputs" % (len(big[0]) // 2), "impl": bi[0][:80]})
    res.streams["malformed"] = len(lines)
    res.streams["huge"] = len(big)
    # validation calls made by several goroutines at once (valid, wrong checksum, unknown word, wrong count)
    def _vop():
        l = rng.choice(LANGS)
        tag, b = rng.choice(gens.validator_inputs(rng, l, n=rng.choice(WORD_COUNTS)))
        return "C %s %s" % (l, hx(b))
    concurrent_stream(res, rng, _vop, programs=3 if tier == "quick" else 20)
    return res


# ---------------------------------------------------------------- C08
def C08(tier, seed, st):
    res = Result("C08")
    rng = random.Random(seed)
    # (1) the list observable through the generator: 187 crafted 12-word entropies per language reveal the
    #     word emitted for every index 0..2047 (positions 0..10 of entropy k carry indices 11k..11k+10)
    lines, want = [], []
    for lang in LANGS:
        for k in range(187):
            pre = [(11 * k + p_) % 2048 for p_ in range(11)]
            lines.append("E %s %s" % (lang, hx(gens.entropy_from_prefix(pre, 12, rng.randrange(128)))))
            want.append(pre)
    impl = common.run_impl(lines)
    model = common.run_model(lines, "model")
    observed = {lang: {} for lang in LANGS}
    for ln, pre, i, m in zip(lines, want, impl, model):
        res.evaluations += 1
        lang = ln.split()[1]
        i0 = strip_impl_E(i)
        if not i0.startswith("ok "):
            res.violation(stream="E", case=ln, impl=i, model=m, spec="a mnemonic", why="generator failed")
            continue
        ws = unhx(i0[3:]).split(gens.sep(lang))
        for p_, idx in enumerate(pre):
            if p_ < len(ws):
                observed[lang].setdefault(idx, set()).add(ws[p_])
        if i0 != m:
            res.corr_break(stream="E", case=ln, impl=i, model=m, why="model and implementation differ")
    for lang in LANGS:
        t = gens.table(lang)
        res.count("index/" + lang, len(observed[lang]))
        res.evaluations += 2048
        for idx in range(2048):
            got = observed[lang].get(idx, set())
            res.nontrivial.add("%s/%d" % (lang, idx))
            if got != {t[idx]}:
                k = idx // 11
                res.violation(stream="E", case=lines[LANGS.index(lang) * 187 + min(k, 186)], impl=sorted(hx(g) for g in got), model="",
                              spec=hx(t[idx]), why="the word emitted for index %d of %s is not the canonical word" % (idx, lang))
                break
    # (1b) the same 2048 indices observed AFTER validation calls (valid, unknown words, wrong checksum) in that language,
    #      in one process: the shared table must not have been touched
    def e_ops(lang):
        k0 = LANGS.index(lang) * 187
        return lines[k0:k0 + 187]
    hw = warm_E_histories(rng, LANGS, e_ops)
    qi = common.run_impl(["Q " + "|".join(h) for h in hw])
    for lang, h, r in zip(LANGS, hw, qi):
        res.evaluations += 1
        res.count("index-after-validation/" + lang)
        rr = r.split(" BUFFERS-CHANGED")[0].split(" | ")
        t = gens.table(lang)
        nwarm = len(h) - 187
        if "BUFFERS-CHANGED" in r or len(rr) != len(h):
            res.violation(stream="Q", case=("Q " + "|".join(h))[:3000], impl=r[:300], model="", spec="history completes, buffers unchanged", why="history of validation then generation failed")
            continue
        for k in range(187):
            pre = want[LANGS.index(lang) * 187 + k]
            out = strip_impl_E(rr[nwarm + k])
            ws = unhx(out[3:]).split(gens.sep(lang)) if out.startswith("ok ") else []
            if ws[:11] != [t[i] for i in pre]:
                res.violation(stream="Q", case=("Q " + "|".join(h[:nwarm] + [h[nwarm + k]]))[:4000], impl=out[:300], model="", spec=hx(gens.sep(lang).join(t[i] for i in pre))[:300],
                              why="after validation calls the word emitted for an index of %s is no longer the canonical word" % lang)
                break
    # (2) validation maps each word back to the same index: every word of every list inside a valid sentence
    items = word_items(rng, "thorough")
    def judge(tag, expect, icls, iv, sacc, scls, xs, lang):
        if not (scls == "nil" and sacc == "accept"):
            return "generator self-check: constructed sentence is not valid by the specification (%s)" % scls
        return None if icls == "nil" else "a valid sentence containing this word is rejected (%s): the validator does not map the word to its index" % icls
    run_C(res, items, judge)
    # (3) nothing else maps to an index: a word of another list / a respelled word in place of a word is unknown
    items = []
    for lang in LANGS:
        for _ in range(20):
            n = rng.choice(WORD_COUNTS)
            idx = gens.indices_of_entropy(rng.randbytes(n // 3 * 4))
            p_ = rng.randrange(n)
            ws = [gens.table(lang)[i] for i in idx]
            other = rng.choice([l for l in LANGS if l != lang])
            cand = gens.table(other)[rng.randrange(2048)]
            if cand in gens.table(lang):
                continue
            ws[p_] = cand
            items.append(("foreign-word", lang, b" ".join(ws), None))
    run_C(res, items, lambda *a: judge_common(*a))
    res.exhaustive = True
    res.notes.append("finite domain 10 x 2048 enumerated completely: every index observed through NewMnemonicByEntropy and every word validated inside a sentence")
    # generation and validation by several goroutines at once
    def _gop():
        l = rng.choice(LANGS)
        e = rng.randbytes(rng.choice(ENT_LENS))
        return rng.choice(["E %s %s" % (l, hx(e)), "C %s %s" % (l, hx(gens.encode(l, e)))])
    concurrent_stream(res, rng, _gop, programs=3)
    tool_reproduces_committed_lists(res)
    return res


# ---------------------------------------------------------------- the library contract (K stream) and seeds (S stream)
def u(*cps):
    return "".join(chr(c) for c in cps)


def k_strings(rng, tier):
    q = tier == "quick"
    out = []
    marks = [0x301, 0x316, 0x327, 0x323, 0x308, 0x334, 0x5B0, 0x64B, 0x93C, 0x1161, 0x11A8, 0x3099, 0xF71, 0x1DC0, 0x20D0]
    for k in (1, 2, 29, 30, 31, 32, 33, 60, 61, 62, 100):
        for mk in marks[:6 if q else len(marks)]:
            out.append("a" + chr(mk) * k)
            out.append(chr(mk) * k + "b")
            out.append("x " + "e" + chr(mk) * k + " y " + "e" + chr(mk) * (k // 2))
        out.append("a" + "".join(chr(rng.choice(marks[:5])) for _ in range(k)))
        out.append(chr(0x1100) + chr(0x1161) * k)
        out.append("가" + chr(0x11A8) * k)
    out += gens.nfc_like_pool()
    for _ in range(150 if q else 4000):
        n = rng.randrange(1, 12)
        cps = []
        for _ in range(n):
            r = rng.random()
            if r < 0.3:
                cps.append(rng.randrange(0x20, 0x7F))
            elif r < 0.5:
                cps.append(rng.choice(marks))
            elif r < 0.7:
                cps.append(rng.randrange(0xA0, 0x3100))
            elif r < 0.8:
                cps.append(rng.randrange(0xAC00, 0xD7A4))
            elif r < 0.9:
                cps.append(rng.randrange(0xF900, 0xFFF0))
            else:
                c = rng.randrange(0x10000, 0x2FA20)
                cps.append(c)
        out.append(u(*[c for c in cps if not 0xD800 <= c <= 0xDFFF]))
    bs = [x.encode() for x in out]
    # invalid UTF-8 mixed with text
    for _ in range(40 if q else 1000):
        b = bytearray(rng.choice(bs))
        for _ in range(rng.randrange(1, 4)):
            b.insert(rng.randrange(len(b) + 1), rng.choice([0xFF, 0xC0, 0x80, 0xED, 0xA0, 0xF5, 0xE3, 0xCC, 0xF6, 0xF7, 0xF8, 0xFC, 0xFE, 0xC1, 0xE0, 0xF0, 0xF4]))
        bs.append(bytes(b))
    # a stray lead / continuation byte directly in front of a character that decomposes (x/text leaves some of these
    # characters as they are; the contract claims nothing about the result except that it is not valid UTF-8)
    for lead in (0xF5, 0xF8, 0xFC, 0xFF, 0xC0, 0xC1, 0xE0, 0xED, 0xF0, 0xF4, 0x80, 0xBF):
        for ch in ("\u017d", "\u00a0", "\u3000", "\u00e9", "\uac00", "\ufb01", "a"):
            bs.append(bytes([lead]) + ch.encode())
            bs.append(b"x " + bytes([lead]) + ch.encode() + b" y")
    # list words and sentences
    for lang in LANGS:
        t = gens.table(lang)
        for _ in range(5 if q else 100):
            bs.append(t[rng.randrange(2048)])
        bs.append(gens.sentence(lang, gens.indices_of_entropy(rng.randbytes(16))))
    # singleton code points
    cps = rng.sample(range(0x110000), 1500 if q else 60000) if q or True else []
    for c in cps:
        if not 0xD800 <= c <= 0xDFFF:
            bs.append(chr(c).encode())
    return bs


def check_K(res, rng, tier):
    """re-validates the contract LC1-LC4 that the theorems assume of norm.NFKD.String, against the Gallina NFKD"""
    bs = k_strings(rng, tier)
    lines = ["K " + hx(b) for b in bs]
    impl = common.run_impl(lines)
    spec = common.run_model(lines, "spec")
    nx = 0
    for ln, b, i, sp in zip(lines, bs, impl, spec):
        res.evaluations += 1
        nf, _, xs = sp.rpartition(" xs=")
        ib, nb = unhx(i), unhx(nf)
        if xs == "u":
            # not valid UTF-8: the contract only says that the output is not valid UTF-8 either (LC4)
            res.count("K/invalid-utf8")
            try:
                ib.decode("utf-8")
                res.corr_break(stream="K", case=ln, impl=i, model=sp, why="library contract LC4: norm.NFKD.String turned a string that is not valid UTF-8 into valid UTF-8")
            except UnicodeDecodeError:
                pass
            if ib != b:
                res.nontrivial.add(ln)
            continue
        if xs == "1":
            res.count("K/xsafe")
            if ib != nb:
                res.corr_break(stream="K", case=ln, impl=i, model=sp, why="library contract LC1: norm.NFKD.String differs from UAX #15 NFKD (pinned Unicode 15 table) on an xsafe string")
        else:
            nx += 1
            res.count("K/not-xsafe")
            if bytes([0xCD, 0x8F]) not in ib:
                res.corr_break(stream="K", case=ln, impl=i, model=sp, why="library contract LC2: output for a non-xsafe string does not contain U+034F")
        if ib.count(b" ") != nb.count(b" "):
            res.corr_break(stream="K", case=ln, impl=i, model=sp, why="library contract LC3: number of 0x20 bytes differs")
        if ib != b:
            res.nontrivial.add(ln)
    res.streams["K"] = res.streams.get("K", 0) + len(lines)
    res.sample({"case": lines[0], "impl": impl[0], "spec": spec[0]})
    return nx


def check_K_singletons(res, part=None):
    """EVERY Unicode scalar value as a one-character string: norm.NFKD.String against the Gallina NFKD
    (1 112 064 cases, a finite domain enumerated completely; part = (k, n): only the code points c with c mod n = k)"""
    lines = ["K " + hx(chr(c).encode()) for c in range(0x110000) if not 0xD800 <= c <= 0xDFFF and (part is None or c % part[1] == part[0])]
    impl = common.run_impl(lines)
    spec = common.run_model(lines, "spec")
    bad = 0
    for ln, i, sp in zip(lines, impl, spec):
        nf, _, xs = sp.rpartition(" xs=")
        if i != nf or xs != "1":
            bad += 1
            res.corr_break(stream="K", case=ln, impl=i, model=sp, why="library contract LC1 on a single code point: norm.NFKD.String differs from UAX #15 NFKD over the pinned Unicode 15 table")
    res.evaluations += len(lines)
    res.count("K/every-code-point", len(lines))
    res.streams["K-singletons"] = len(lines)
    res.notes.append("%s: %d Unicode scalar values compared as singletons, %d differences" % ("exhaustive" if part is None else "slice %d of %d" % part, len(lines), bad))


def pbk(pw, salt, it=2048, n=64):
    return hashlib.pbkdf2_hmac("sha512", pw, salt, it, n).hex()


F3_M = b"x"
F3_P = b"a" + u(0x301).encode() * 31
F3_PAIR = (u(0x301).encode() * 30 + u(0x316).encode(), u(0x316).encode() + u(0x301).encode() * 30)


def s_inputs(rng, tier):
    q = tier == "quick"
    pairs = []
    eng = gens.sentence("English", gens.indices_of_entropy(bytes(16)))
    pairs += [(b"", b""), (eng, b""), (eng, b"TREZOR"), (b"", b"x"), (F3_M, F3_P)]
    # lengths around the HMAC block (128 bytes) for the password and for the salt ("mnemonic" + p)
    for n in list(range(118, 140)) + ([0, 1, 63, 64, 65, 191, 192, 193, 255, 256, 257, 300, 1000] if q else list(range(0, 118)) + list(range(140, 400))):
        pairs.append((bytes(rng.randrange(0x21, 0x7F) for _ in range(n)), bytes(rng.randrange(0x21, 0x7F) for _ in range(rng.choice((0, 5, n))))))
        pairs.append((b"m", bytes(rng.randrange(0x21, 0x7F) for _ in range(max(0, n - 8)))))
    # valid sentences of exactly-N-byte NFKD length around 128, all scripts
    for lang in LANGS:
        for n in WORD_COUNTS:
            idx = gens.indices_of_entropy(rng.randbytes(n // 3 * 4))
            pairs.append((gens.sentence(lang, idx), rng.choice([b"", b"pw", "パスワード".encode(), "é".encode()])))
    for _ in range(30 if q else 600):
        n = rng.choice((12, 15, 18))
        for _ in range(200):
            idx = gens.indices_of_entropy(rng.randbytes(n // 3 * 4))
            sent = gens.sentence("English", idx)
            if len(sent) in (126, 127, 128, 129, 130):
                pairs.append((sent, b""))
                break
    # whitespace-damaged mnemonics: the seed function must not re-tokenise
    idx = gens.indices_of_entropy(rng.randbytes(16))
    for tag, b in gens.damaged(rng, "English", idx):
        if tag.startswith("ws-"):
            pairs.append((b, b""))
    pairs += [(b" ", b""), (b"  a  b ", b" "), ("　".encode(), b""), (b"a\tb", b"c\nd"), (b"a b", b"a  b")]
    # U+0000 and other control characters, percent signs and format directives, in either argument
    for x in (b"\x00", b"a\x00b", b"\x00\x00", b"a\x00", b"\x00mnemonic", b"100% secret", b"%s", b"%d%v", b"%%", b"a%", b"\x01\x7f", b"{{.}}", b"\\n"):
        pairs += [(x, b"pw"), (b"abandon about", x), (x, x)]
    # unicode: compatibility characters, reordering marks, marks at the start of the passphrase
    pool = [x.encode() for x in gens.nfc_like_pool()]
    for _ in range(40 if q else 800):
        m = b" ".join(rng.choice(pool) for _ in range(rng.randrange(1, 6)))
        p_ = b"".join(rng.choice(pool) for _ in range(rng.randrange(0, 4)))
        pairs.append((m, p_))
    for k in (29, 30, 31):
        pairs.append((b"e" + u(0x301).encode() * k, b""))
        pairs.append((b"x", u(0x301).encode() * k))
        pairs.append((b"x", u(0x316).encode() + u(0x301).encode() * (k - 1)))
    # marks at the edges of BOTH arguments: nothing may reorder or compose across the argument boundary
    lo, hi = [0x323, 0x316, 0x327, 0x5B0], [0x301, 0x308, 0x303, 0x3099]
    for _ in range(12 if q else 200):
        m = u(rng.choice(lo)) + rng.choice(["abc", "e", ""]) + u(rng.choice(hi + lo))
        p_ = rng.choice(["pass e", "caf", "x", ""]) + u(rng.choice(hi)) * rng.randrange(1, 3)
        pairs.append((m.encode(), p_.encode()))
        pairs.append((p_.encode(), m.encode()))
    # long arguments with an out-of-order pair of marks at many offsets (around powers of two and buffer-like sizes)
    for base in (32, 64, 128, 256, 512, 1024, 4096) if not q else (64, 512, 4096):
        for off in range(base - 4, base + 3):
            body = "a" * max(0, off - 1) + "e" + u(0x301, 0x323) + "z"
            pairs.append((body.encode(), b"pw"))
            pairs.append((b"m", body.encode()))
    # arguments whose NFKD form is many times longer than the argument (U+FDFA x k, squared katakana words ...)
    ex = gens.expansion_strings()
    for x in (rng.sample(ex, 40) if q else ex):
        pairs.append((x, b""))
        pairs.append((b"x", x))
    pairs.append((ex[-1], ex[-2]))
    # marks out of canonical order with NO decomposable character anywhere in the argument
    um = gens.unordered_mark_pairs()
    for typed, canon in (rng.sample(um, 30) if q else um):
        pairs.append((typed, b""))
        pairs.append((b"abc", typed))
    # invalid UTF-8 (extra: the property speaks of valid UTF-8 only; the model covers all byte strings)
    for _ in range(10 if q else 200):
        pairs.append((rng.randbytes(rng.randrange(1, 40)), rng.randbytes(rng.randrange(0, 20))))
    return pairs


def run_S(res, pairs, pid):
    """implementation seed vs PBKDF2 (hashlib) over the (password, salt) the specification derives with the Coq NFKD"""
    lines = ["S %s %s" % (hx(m), hx(p_)) for m, p_ in pairs]
    impl = common.run_impl(lines)
    spec = common.run_model(lines, "spec")
    model = common.run_model(lines, "model")
    seeds = []
    for ln, i, sp, md in zip(lines, impl, spec, model):
        res.evaluations += 1
        f = sp.split()
        pw, salt, xs = unhx(f[1]), unhx(f[2]), f[5]
        want = "seed " + pbk(pw, salt)
        got = i.replace(" NOT-FRESH", "")
        seeds.append((got, xs))
        res.count({"xs=1": "S/xsafe", "xs=u": "S/invalid-utf8"}.get(xs, "S/not-xsafe"))
        res.nontrivial.add(ln)
        if "NOT-FRESH" in i:
            res.violation(stream="S", case=ln, impl=i, model=md, spec=want, why="MnemonicToSeed returned a slice that is not fresh: mutating it changed a later result")
        elif len(unhx(got[5:])) != 64:
            res.violation(stream="S", case=ln, impl=i, model=md, spec=want, why="seed is not 64 bytes")
        elif got != want:
            if xs == "xs=0":
                res.known["id=F3-xtext-stream-safe class=not-xsafe MnemonicToSeed differs from PBKDF2 over true NFKD when an argument's NFKD form has a run of more than 30 modifiers (stream-safe NFKD of golang.org/x/text)"] = ln
            elif xs == "xs=u":
                res.count("S/invalid-utf8-differs")   # outside the property (valid UTF-8 only) and outside the library contract
            else:
                res.violation(stream="S", case=ln, impl=i, model=md, spec=want,
                              why="MnemonicToSeed differs from PBKDF2-HMAC-SHA512(NFKD(m), \"mnemonic\"+NFKD(p), 2048, 64)")
        elif md != sp:
            res.corr_break(stream="S", case=ln, impl=i, model=md, spec=sp, why="model's PBKDF2 arguments differ from the specification's")
    res.streams["S"] = res.streams.get("S", 0) + len(lines)
    res.sample({"case": lines[2], "impl": impl[2], "spec_args": spec[2][:160]})
    return seeds


def check_crypto(res, rng, tier):
    """the Gallina SHA-512 / HMAC / PBKDF2 against the real libraries (the model executes them; the seed theorem is stated over them)"""
    q = tier == "quick"
    lines = []
    for n in [0, 1, 55, 56, 63, 64, 111, 112, 119, 120, 127, 128, 129, 239, 240, 255, 256, 257, 1000] + [rng.randrange(0, 600) for _ in range(20 if q else 400)]:
        lines.append("H5 " + hx(rng.randbytes(n)))
        lines.append("H " + hx(rng.randbytes(n)))
    for kn in [0, 1, 20, 64, 127, 128, 129, 130, 131, 200, 300] + [rng.randrange(0, 300) for _ in range(10 if q else 300)]:
        lines.append("M %s %s" % (hx(rng.randbytes(kn)), hx(rng.randbytes(rng.randrange(0, 200)))))
    for c in (1, 2, 3, 10) if q else (1, 2, 3, 10, 100):
        for kl in (64, 20, 65, 128):
            lines.append("P %s %s %d %d" % (hx(rng.randbytes(rng.choice((0, 5, 128, 129, 200)))), hx(rng.randbytes(rng.randrange(0, 40))), c, kl))
    a, b = common.run_impl(lines), common.run_model(lines, "model")
    for ln, x, y in zip(lines, a, b):
        res.evaluations += 1
        res.count("crypto/" + ln.split()[0])
        if x != y:
            res.corr_break(stream=ln.split()[0], case=ln, impl=x, model=y, why="Gallina SHA-2/HMAC/PBKDF2 differs from the Go library")
    res.streams["crypto"] = len(lines)


def full_seeds(res, rng, tier):
    """a few full 2048-iteration seeds evaluated by the extracted Gallina PBKDF2 itself (about 40 s each, in parallel)"""
    cases = [(gens.sentence("English", gens.indices_of_entropy(bytes(16))), b"TREZOR")]
    if tier != "quick":
        cases += [(gens.sentence(l, gens.indices_of_entropy(rng.randbytes(16))), "é".encode()) for l in LANGS] + [(b"", b""), (rng.randbytes(200), rng.randbytes(150))]
    lines = ["SF %s %s" % (hx(m), hx(p_)) for m, p_ in cases]
    impl = common.run_impl(lines)
    spec = common.run_model(lines, "spec", shards=len(lines))
    for ln, i, sp in zip(lines, impl, spec):
        res.evaluations += 1
        res.count("S/full-2048-iterations-in-Coq-extraction")
        if i.replace(" NOT-FRESH", "") != sp:
            res.violation(stream="SF", case=ln, impl=i, model="", spec=sp, why="MnemonicToSeed differs from the specification's seed (evaluated by the extracted Gallina PBKDF2)")
    res.streams["SF"] = len(lines)


def C04(tier, seed, st):
    res = Result("C04")
    rng = random.Random(seed)
    check_K(res, rng, tier)
    if tier != "quick":
        check_K_singletons(res)
    check_crypto(res, rng, tier)
    run_S(res, s_inputs(rng, tier), "C04")
    run_Q(res, seed_histories(rng, tier == "quick"), lambda op, r, sp: None)
    full_seeds(res, rng, tier)
    # seed derivations made by several goroutines at once: different short and long passphrases, respelled arguments
    _pool = [x.encode() for x in gens.nfc_like_pool()]
    _M = gens.sentence("English", gens.indices_of_entropy(rng.randbytes(16)))
    def _sop():
        return "S %s %s" % (hx(rng.choice([_M, _M, rng.choice(_pool)])), hx(rng.choice([b"", bytes(rng.randrange(0x21, 0x7F) for _ in range(rng.randrange(1, 70))), rng.choice(_pool)])))
    concurrent_stream(res, rng, _sop, programs=3 if tier == "quick" else 20, ops=3)
    return res


def C11(tier, seed, st):
    res = Result("C11")
    rng = random.Random(seed)
    q = tier == "quick"
    import unicodedata
    check_K(res, rng, tier)
    quads = []   # ((m1, p1), (m2, p2), tag)
    quads.append(((b"x", F3_PAIR[0]), (b"x", F3_PAIR[1]), "f3-witness"))
    for lang in LANGS:
        t = gens.table(lang)
        words = range(rng.randrange(16), 2048, 16) if q else range(2048)
        for w in words:
            sp_ = gens.spellings(t[w])
            if not sp_:
                continue
            n = WORD_COUNTS[w % 5]
            pos = (w * 5) % n
            idx = gens.sentence_with_word(rng, lang, n, pos, w)
            base = [t[i] for i in idx]
            for form, v in sp_.items():
                var = list(base)
                var[pos] = v
                quads.append(((b" ".join(base), b""), (b" ".join(var), b""), "word-" + form))
        for n in WORD_COUNTS:
            idx = gens.indices_of_entropy(rng.randbytes(n // 3 * 4))
            a = gens.sentence(lang, idx, b" ")
            for sepv in gens.EQUIV_SEPS:
                quads.append(((a, b"pw"), (gens.sentence(lang, idx, sepv.encode()), b"pw"), "sep"))
    pool = gens.nfc_like_pool()
    for _ in range(60 if q else 1200):
        m = " ".join(rng.choice(pool) for _ in range(rng.randrange(1, 5)))
        p_ = "".join(rng.choice(pool) for _ in range(rng.randrange(0, 4)))
        f1, f2 = rng.choice(("NFC", "NFD", "NFKC", "NFKD")), rng.choice(("NFC", "NFD", "NFKC", "NFKD"))
        quads.append(((m.encode(), p_.encode()), (unicodedata.normalize(f1, m).encode(), unicodedata.normalize(f2, p_).encode()), "arbitrary"))
        quads.append(((b"abc", p_.encode()), (b"abc", unicodedata.normalize(f2, p_).encode()), "passphrase-only"))
    # only the ORDER of combining marks differs and nothing in the argument has a decomposition
    um = gens.unordered_mark_pairs()
    for typed, canon in (rng.sample(um, 40) if q else um):
        quads.append(((b"abc", typed), (b"abc", canon), "marks-only-passphrase"))
        quads.append(((typed, b"pw"), (canon, b"pw"), "marks-only-mnemonic"))
    # long-decomposition characters against their decomposed spelling
    for x in (rng.sample(gens.expansion_strings(), 12) if q else gens.expansion_strings()):
        d = unicodedata.normalize("NFKD", x.decode()).encode()
        quads.append(((x, b""), (d, b""), "expansion"))
        quads.append(((b"m", x), (b"m", d), "expansion"))
    # one substring of a list word as a single compatibility code point
    for lang in LANGS:
        t = gens.table(lang)
        for w in rng.sample(range(2048), 12 if q else 300):
            for cat, v in gens.compat_respellings(rng, t[w], 2):
                quads.append(((t[w] + b" x", b""), (v + b" x", b""), "compat-" + cat))
    lines = []
    for (m1, p1), (m2, p2), tag in quads:
        lines += ["S %s %s" % (hx(m1), hx(p1)), "S %s %s" % (hx(m2), hx(p2))]
    impl = common.run_impl(lines)
    spec = common.run_model(lines, "spec")
    for k, (a, b, tag) in enumerate(quads):
        res.evaluations += 2
        res.count("pair/" + tag)
        sa, sb = spec[2 * k].split(), spec[2 * k + 1].split()
        if sa[1:3] != sb[1:3]:
            res.count("pair-not-equivalent")
            continue
        if a != b:
            res.nontrivial.add(lines[2 * k + 1])
        ia, ib = impl[2 * k].replace(" NOT-FRESH", ""), impl[2 * k + 1].replace(" NOT-FRESH", "")
        want = "seed " + pbk(unhx(sa[1]), unhx(sa[2]))
        if ia != ib or ia != want:
            if "xs=u" in (sa[5], sb[5]):
                res.count("pair-invalid-utf8")
            elif sa[5] == "xs=0" or sb[5] == "xs=0":
                res.known["id=F3-xtext-stream-safe class=not-xsafe two spellings with equal NFKD forms give different seeds when the NFKD form has a run of more than 30 modifiers (stream-safe NFKD of golang.org/x/text)"] = lines[2 * k]
            else:
                res.violation(stream="S", case=lines[2 * k + 1], other_case=lines[2 * k], impl=ib, impl_other=ia, model="", spec=want, tag=tag,
                              why="two (mnemonic, passphrase) pairs with equal NFKD forms give different seeds" if ia != ib else "seed differs from the specification")
    res.sample({"pair": [lines[2][:160], lines[3][:160]], "impl": [impl[2][:40], impl[3][:40]]})
    res.streams["S"] = len(lines)
    # equivalent spellings and repeats one after another in one process
    run_Q(res, seed_histories(rng, q), lambda op, r, sp: None)
    # seed derivations made by several goroutines at once: different short and long passphrases, respelled arguments
    _pool = [x.encode() for x in gens.nfc_like_pool()]
    _M = gens.sentence("English", gens.indices_of_entropy(rng.randbytes(16)))
    def _sop():
        return "S %s %s" % (hx(rng.choice([_M, _M, rng.choice(_pool)])), hx(rng.choice([b"", bytes(rng.randrange(0x21, 0x7F) for _ in range(rng.randrange(1, 70))), rng.choice(_pool)])))
    concurrent_stream(res, rng, _sop, programs=3 if tier == "quick" else 20, ops=3)
    return res


# ---------------------------------------------------------------- C17
TOOL_FILES = gens.CANON_FILES   # variable -> file name


def run_tool(served, workroot, reuse_dir=None):
    """serve `served` (file name -> bytes) on a loopback HTTP server, run the real tool (built from /repo with
    -tags verif) in a fresh scratch directory, return (rc, log, {file name: written bytes or None}, scratch dir)"""
    import http.server, threading, tempfile, os, subprocess
    class H(http.server.BaseHTTPRequestHandler):
        def do_GET(self):
            name = self.path.rsplit("/", 1)[-1]
            if name.endswith(".txt") and name[:-4] in served:
                body = served[name[:-4]]
                self.send_response(200)
                self.send_header("Content-Length", str(len(body)))
                self.end_headers()
                self.wfile.write(body)
            else:
                self.send_response(404)
                self.end_headers()
        def log_message(self, *a):
            pass
    srv = http.server.ThreadingHTTPServer(("127.0.0.1", 0), H)
    th = threading.Thread(target=srv.serve_forever, daemon=True)
    th.start()
    if reuse_dir:
        d = reuse_dir     # the output files of an earlier run are still there: regeneration must replace them
    else:
        d = tempfile.mkdtemp(prefix="tool-", dir=workroot)
        os.makedirs(os.path.join(d, "internal", "wordlist"))
        open(os.path.join(d, "go.mod"), "w").write("module scratch\n\ngo 1.21\n")
    try:
        p = subprocess.run([os.path.join(common.BUILD, "update-wordlist")], cwd=d, timeout=300,
                           env=dict(common.GOENV, BIP39_VERIF_WORDLIST_URL="http://127.0.0.1:%d" % srv.server_address[1]),
                           stdout=subprocess.PIPE, stderr=subprocess.STDOUT, text=True)
        rc, log = p.returncode, p.stdout
    except subprocess.TimeoutExpired:
        rc, log = -9, "timeout"
    srv.shutdown()
    out = {}
    for name in served:
        path = os.path.join(d, "internal", "wordlist", name + ".go")
        out[name] = open(path, "rb").read() if os.path.exists(path) else None
    return rc, log, out, d


def tool_reproduces_committed_lists(res):
    """Run on the pinned canonical upstream files, the real generator (built from the working tree with -tags verif,
    in a scratch directory) must write exactly the lists committed under internal/wordlist: the lists of the package
    and what the tool would regenerate are the same thing (C08 meets C17)."""
    import os, shutil, tempfile
    rc, out = common.sh(["go", "build", "-tags", "verif", "-o", os.path.join(common.BUILD, "update-wordlist"), "./update-wordlist"], cwd=common.REPO, env=common.GOENV, timeout=900)
    if rc != 0:
        res.corr_break(stream="T", case="-", why="update-wordlist does not build with the verif hook: " + out[-300:])
        return
    names = sorted(TOOL_FILES.values())
    canon = {n: open(os.path.join(common.ROOT, "canon", n + ".txt"), "rb").read() for n in names}
    workroot = tempfile.mkdtemp(prefix="verif-c08-")
    try:
        rc, log, outs, d = run_tool(canon, workroot)
        if rc != 0:
            res.violation(stream="T", case="canonical", impl="rc=%s %s" % (rc, log[-600:]), model="", spec="the tool completes", why="the generator failed on the canonical upstream files")
            return
        got = common.run_impl(["GP %s" % os.path.join(d, "internal", "wordlist", n + ".go") for n in names])
        want = common.run_impl(["GP %s" % os.path.join(common.REPO, "internal", "wordlist", n + ".go") for n in names])
        for n, a, b in zip(names, got, want):
            res.evaluations += 1
            res.count("T/canonical-regeneration")
            if a != b:
                res.violation(stream="T", case={"round": "canonical", "file": n + ".txt", "served": "canon/%s.txt" % n}, impl=a[:300], model="", spec=b[:300],
                              why="run on the canonical upstream list the generator does not reproduce the committed list")
    finally:
        shutil.rmtree(workroot, ignore_errors=True)


def tool_word(rng):
    """a word of letters and combining marks from the scripts of the ten lists"""
    k = rng.random()
    if k < 0.5:
        return rng.choice(gens.table(rng.choice(LANGS)))
    n = rng.randrange(1, 9)
    alph = rng.choice(["abcdefghijklmnopqrstuvwxyz", "áéíóúñüçàèâêîôûëïœ", "ěščřžýůďťň", "あいうえおかがきぎくぐ", "的一是在不了有和人这",
                       u(0x1100, 0x1161, 0x11A8, 0x1102, 0x1175), "e" + u(0x301) + "a" + u(0x308) + "n" + u(0x303) + u(0x3099),
                       u(0x20000, 0x20001, 0x2A700, 0x2F800, 0x30000, 0x1B002, 0x10330, 0x10400, 0x1D44E, 0x16F00, 0x1E900) + "a" + u(0x1E8D0, 0x16AF0)])
    return "".join(rng.choice(alph) for _ in range(n)).encode()


def C17(tier, seed, st):
    import os, shutil, subprocess, tempfile
    res = Result("C17")
    rng = random.Random(seed)
    q = tier == "quick"
    rc, out = common.sh(["go", "build", "-tags", "verif", "-o", os.path.join(common.BUILD, "update-wordlist"), "./update-wordlist"], cwd=common.REPO, env=common.GOENV, timeout=900)
    if rc != 0:
        res.notes.append("the tool does not build with -tags verif: " + out[-1500:])
        res.corr_break(stream="T", case="-", why="update-wordlist does not build with the verif hook")
        return res
    workroot = tempfile.mkdtemp(prefix="verif-c17-")
    names = sorted(TOOL_FILES.values())
    var_of = {v: k for k, v in TOOL_FILES.items()}
    try:
        rounds = []
        canon = {n: open(os.path.join(common.ROOT, "canon", n + ".txt"), "rb").read() for n in names}
        rounds.append(("canonical", canon, True))
        for r in range(2 if q else 30):
            served = {}
            for n in names:
                cnt = rng.choice((0, 1, 2, 5, 40, 300) if q else (0, 1, 2, 5, 40, 300, 2048, 5000))
                ws = [tool_word(rng) for _ in range(cnt)]
                # blank lines at the start / middle / end
                for _ in range(rng.randrange(0, 4)):
                    ws.insert(rng.randrange(len(ws) + 1), b"")
                if rng.random() < 0.3:
                    ws = [b""] + ws
                if rng.random() < 0.3:
                    ws = ws + [b"", b""]
                body = b"\n".join(ws)
                if rng.random() < 0.6:
                    body += b"\n"
                served[n] = body
            rounds.append(("random%d" % r, served, True))
        # long files (beyond 64 KiB, beyond 1 MiB), then a regeneration with SHORTER files into the same directory
        big = {}
        for k, n in enumerate(names):
            cnt = (9000, 30000, 150000)[k % 3] if (k < 3 or not q) else 50
            big[n] = b"\n".join(tool_word(rng) for _ in range(cnt)) + b"\n"
        # a single very long word (beyond 64 KiB, beyond 1 MiB) among ordinary ones
        big[names[0]] = b"\n".join([tool_word(rng), ("ab" * 40000).encode(), tool_word(rng), ("z" + u(0x301)) .encode() * 400000, tool_word(rng)]) + b"\n"
        rounds.append(("long", big, True))
        rounds.append(("regenerate-shorter", {n: b"\n".join(tool_word(rng) for _ in range(3)) + b"\n" for n in names}, True))
        # outside the domain (quotes, backslashes, markup, CR): recorded against the model, the property does not judge them
        bad = {}
        for n in names:
            ws = [tool_word(rng) for _ in range(6)]
            ws[rng.randrange(6)] = rng.choice([b'qu"ote', b"back\\slash", b"a<b", b"a&b", b"it's", b"c+d", b"cr\r", b"nul\x00x"])
            bad[n] = b"\n".join(ws) + b"\n"
        rounds.append(("outside-domain", bad, False))
        # pure-letter files whose first bytes look like the signature of some other file type
        magics = [b"BM", b"OTTO", b"ttcf", b"wOFF", b"RIFF", b"FORM", b"OggS", b"MThd", b"ID", b"PK", b"GIF", b"Rar", b"fLaC", b"xxxxftypisom", b"II", b"MM", b"MZ", b"ELF", b"caff"]
        rng.shuffle(magics)
        sn = {}
        for k, n in enumerate(names):
            ws = [tool_word(rng) for _ in range(rng.choice((0, 3, 30)))]
            first = magics[k % len(magics)] + rng.choice([b"", b"abc", b"WAVEfmt", b"WEBPVP"])
            sn[n] = b"\n".join([first] + ws) + b"\n"
        sn[names[1]] = b"aaaa\n" * 6 + b"aaa\n" + b"LPxx\nzz\n"      # "LP" at byte offset 34
        rounds.append(("signature-like", sn, True))
        # files WITHOUT a final newline whose last word ends in a letter that is also an escape letter (n, r, t, ...),
        # files ending in several newlines, a single word without newline
        en = {}
        for k, n in enumerate(names):
            ws = [tool_word(rng) for _ in range(rng.choice((0, 1, 4, 20)))]
            last = rng.choice([b"butto", b"lette", b"ca", "caf\u00e9".encode(), b"x"]) + ("n" if k % 2 == 0 else "rtabfvu0xNUsdq"[k % 14]).encode()
            en[n] = b"\n".join(ws + [last]) + (b"" if k % 3 else b"\n\n\n")
            if k % 3 == 2:
                en[n] = b"\n\n" + en[n]
        rounds.append(("last-word-endings", en, True))
        prev_dir = None
        for tag, served, judged in rounds:
            rc, log, outs, d = run_tool(served, workroot, reuse_dir=prev_dir if tag == "regenerate-shorter" else None)
            if rc != 0:
                res.violation(stream="T", case=tag, impl="rc=%s %s" % (rc, log[-600:]), model="", spec="the tool completes", why="the generator failed on served word files")
                continue
            # do the written files compile?
            brc, bout = common.sh(["go", "build", "./..."], cwd=d, env=common.GOENV, timeout=600)
            tl, gl, files = [], [], []
            for n in names:
                body = served[n]
                files.append(n)
                tl.append("TR %s %s" % (hx(var_of[n].encode()), hx(body)))
                gl.append("GP %s" % os.path.join(d, "internal", "wordlist", n + ".go"))
            rend = common.run_model(tl, "model")
            parsed = common.run_impl(gl)
            ml = common.run_model(["TL " + hx(outs[n] or b"") for n in names], "model")
            for n, r_, g_, m_ in zip(names, rend, parsed, ml):
                res.evaluations += 1
                res.count("T/" + tag.rstrip("0123456789"))
                body = served[n]
                want = [w for w in body.split(b"\n") if w != b""]
                res.nontrivial.add(hashlib.sha256(body + n.encode()).hexdigest())
                case = {"round": tag, "file": n + ".txt", "variable": var_of[n], "served_hex": hx(body)[:4000]}
                wl = "ok %s %d %s" % (hx(var_of[n].encode()), len(want), ",".join(hx(w) for w in want))
                if judged:
                    if outs[n] is None:
                        res.violation(stream="T", case=case, impl="no file written", model=r_[:200], spec=wl[:300], why="no output file for this target")
                        continue
                    if brc != 0:
                        res.violation(stream="T", case=case, impl="go build: " + bout[-600:], model="", spec="the written files compile", why="a generated file does not compile")
                        continue
                    if g_ != wl:
                        res.violation(stream="T", case=case, impl=g_[:600], model=m_[:300], spec=wl[:600],
                                      why="the list in the generated Go file is not exactly the non-empty input lines, in order, under the expected variable")
                        continue
                if r_ != "ok " + hx(outs[n] or b""):
                    if judged or r_ != "none":
                        res.corr_break(stream="T", case=case, impl=hx(outs[n] or b"")[:400], model=r_[:400], why="the bytes the tool wrote differ from the model's rendering of the template")
                elif judged and m_ != g_:
                    res.corr_break(stream="T", case=case, impl=g_[:300], model=m_[:300], why="the model's reader of Go list literals differs from go/parser")
            if tag == "canonical":
                # run on the canonical lists the tool reproduces the committed lists
                cl = ["GP %s" % os.path.join(common.REPO, "internal", "wordlist", n + ".go") for n in names]
                for n, a, b in zip(names, parsed, common.run_impl(cl)):
                    res.evaluations += 1
                    if a != b:
                        res.violation(stream="T", case={"round": tag, "file": n}, impl=a[:300], model="", spec=b[:300],
                                      why="run on the canonical upstream list the tool does not reproduce the committed list")
            if tag == "long":
                prev_dir = d
            else:
                shutil.rmtree(d, ignore_errors=True)
        res.sample({"round": "canonical", "files": names, "served": "canon/*.txt"})
        res.sample({"round": "random0", "file": names[3], "served_hex": hx(rounds[1][1][names[3]])[:300]})
    finally:
        shutil.rmtree(workroot, ignore_errors=True)
    res.streams["tool-runs"] = len(rounds)
    res.notes.append("the real tool is built from /repo with -tags verif and run against a loopback HTTP server in a scratch directory (removed afterwards); outside-domain inputs are compared with the model only")
    return res


def run_concurrent(res, progs):
    """progs: programs (lists of goroutines, each a list of ops; a group starting with "PRE" runs first, alone) - each in
    a fresh process of the race-detector build, goroutines released together.  Reports data races, crashes, and any
    call that returns something else than when run alone in a fresh process.  Returns the default-source draws."""
    # what every op returns when run alone, in a fresh process
    uniq = sorted(set(op for p_ in progs for g in p_ if g[0] != "PRE" for op in g if op[0] != "N"))
    alone = dict(zip(uniq, [r.split(" BUFFERS-CHANGED")[0] for r in common.run_impl(["Q " + op for op in uniq])]))
    outs = common.run_race(progs)
    drawn = []   # (language, mnemonic hex, case) of every concurrent default-source NewMnemonic
    for prog, (rows, race, rc, err) in zip(progs, outs):
        res.evaluations += 1
        res.nontrivial.add(json_key(prog))
        case = "race " + " || ".join("|".join(g) for g in prog)
        full_prog, prog = prog, [g for g in prog if g[0] != "PRE"]
        res.count("race/goroutines=%d" % len(prog))
        if race:
            res.violation(stream="race", case=case[:6000], impl=race, model="", spec="no data race", why="the race detector reported a data race")
            continue
        if rc == -9:
            rows2, race2, rc2, err2 = common.run_race([full_prog], timeout=600)[0]
            if rc2 == -9:
                res.notes.append("a race run timed out twice (inconclusive, not counted as a violation)")
                continue
            rows, race, rc, err = rows2, race2, rc2, err2
        if rc != 0 or len(rows) != len(prog):
            res.violation(stream="race", case=case[:6000], impl="rc=%s %s" % (rc, err[-800:]), model="", spec="all goroutines complete", why="the concurrent run did not complete normally (panic or crash)")
            continue
        bad = None
        for g, row in zip(prog, rows):
            for op, r in zip(g, row):
                if op[0] == "N":
                    n = int(op.split()[1])
                    want = "ok words=%d" % n if n in WORD_COUNTS else "err wordlen"
                    if r.split(" ")[:2] != want.split(" "):
                        bad = (op, r, want)
                    elif n in WORD_COUNTS:
                        drawn.append((op.split()[2], r.split(" ")[2], case))
                elif r != alone[op]:
                    bad = (op, r, alone[op])
            if len(row) != len(g):
                bad = (g[0], "goroutine returned %d results for %d calls" % (len(row), len(g)), "")
        if bad:
            res.violation(stream="race", case=case[:6000], failing_op=bad[0], impl=bad[1], model="", spec=bad[2],
                          why="a call returned something else than when run alone")
    res.streams["race-processes"] = res.streams.get("race-processes", 0) + len(progs)
    res.streams["alone"] = res.streams.get("alone", 0) + len(uniq)
    # the same programs with each environment variable the package reads set (fresh processes)
    for name in [n for n in common.env_reads() if n and not n.startswith("<")]:
        for val in ("1", "all"):
            for prog, (rows, race, rc, err) in zip(progs, common.run_race(progs, env={name: val})):
                res.evaluations += 1
                res.count("race-env/goroutines=%d" % len([g for g in prog if g[0] != "PRE"]))
                case = "race " + " || ".join("|".join(g) for g in prog)
                if race:
                    res.violation(stream="race", case=case[:6000], env={name: val}, impl=race, model="", spec="no data race",
                                  why="with %s=%s in the environment the race detector reported a data race" % (name, val))
                elif rc not in (0, -9):
                    res.violation(stream="race", case=case[:6000], env={name: val}, impl="rc=%s %s" % (rc, err[-800:]), model="", spec="all goroutines complete",
                                  why="with %s=%s in the environment the concurrent run did not complete normally" % (name, val))
    # the same programs on the PLAIN build of the package (no verif tag: what users compile) - those that need no
    # scripted source; a data race, crash or result that exists only there is reported with the program as the input
    import os
    pp = [p_ for p_ in progs if not any(g[0] == "PRE" for g in p_)]
    if pp and os.path.exists(os.path.join(common.BUILD, "implrun_race_plain")):
        for prog, (rows, race, rc, err) in zip(pp, common.run_race(pp, plain=True)):
            res.evaluations += 1
            res.count("race-plain-build/goroutines=%d" % len(prog))
            case = "race " + " || ".join("|".join(g) for g in prog)
            if race:
                res.violation(stream="race", case=case[:6000], impl=race, model="", spec="no data race", build="plain (no verif tag)",
                              why="the race detector reported a data race in the package built without the verif tag")
                continue
            if rc == -9:
                continue
            if rc != 0 or len(rows) != len(prog):
                res.violation(stream="race", case=case[:6000], impl="rc=%s %s" % (rc, err[-800:]), model="", spec="all goroutines complete", build="plain (no verif tag)",
                              why="the concurrent run of the package built without the verif tag did not complete normally")
                continue
            for g, row in zip(prog, rows):
                for op, r in zip(g, row):
                    if op[0] != "N" and r != alone.get(op):
                        res.violation(stream="race", case=case[:6000], failing_op=op, impl=r[:300], model="", spec=(alone.get(op) or "")[:300], build="plain (no verif tag)",
                                      why="in the package built without the verif tag a concurrent call returned something else than the call run alone")
                        break
        res.streams["race-processes-plain-build"] = res.streams.get("race-processes-plain-build", 0) + len(pp)
    return drawn


def concurrent_stream(res, rng, mk_op, programs=3, goroutines=(4, 8), ops=5, pre=None):
    """a small concurrent-use stream for the checks of single properties: `programs` fresh processes in which several
    goroutines make the calls produced by mk_op() at the same time; every result must be what the call returns alone"""
    ok, log = common.build_race()
    if not ok:
        res.corr_break(stream="race", case="-", why="implrun does not build with -race: " + log[-300:])
        return []
    progs = []
    for _ in range(programs):
        prog = [[mk_op() for _ in range(ops)] for _ in range(rng.choice(goroutines))]
        if pre:
            prog = [["PRE"] + pre()] + prog
        progs.append(prog)
    return run_concurrent(res, progs)


# ---------------------------------------------------------------- C12
def C12(tier, seed, st):
    res = Result("C12")
    rng = random.Random(seed)
    q = tier == "quick"
    ok, log = common.build_race()
    if not ok:
        res.notes.append("race-detector build failed: " + log[-1500:])
        res.corr_break(stream="race", case="-", why="implrun does not build with -race")
        return res
    def sent(lang, n=12, valid=True):
        idx = gens.indices_of_entropy(rng.randbytes(n // 3 * 4))
        if not valid:
            idx[-1] ^= 1
        return hx(gens.sentence(lang, idx))
    progs = []
    # every goroutine validates under the SAME cold language (concurrent first use), then others
    for lang in (rng.sample(LANGS, 4) if q else LANGS):
        g = rng.choice((2, 4, 8, 16))
        progs.append([["C %s %s" % (lang, sent(lang)), "C %s %s" % (lang, sent(lang, 15, False))] for _ in range(g)])
    # ordered pairs of first-used languages racing each other
    pairs = [(a, b) for a in LANGS for b in LANGS if a != b]
    for a, b in (rng.sample(pairs, 6) if q else pairs):
        progs.append([["C %s %s" % (a, sent(a)), "C %s %s" % (b, sent(b))], ["C %s %s" % (b, sent(b)), "C %s %s" % (a, sent(a))],
                      ["E %s %s" % (a, hx(rng.randbytes(16))), "C %s %s" % (a, sent(a))], ["L %s" % b, "C %s %s" % (b, sent(b, 24))]])
    # mixes of all six entry points over all languages, incl. NewMnemonic on the default source
    for _ in range(26 if q else 450):
        g = rng.choice((2, 3, 5, 8, 12))
        prog = []
        for _ in range(g):
            ops = []
            for _ in range(rng.randrange(1, 5)):
                lang = rng.choice(LANGS + UNSUPPORTED[:2])
                k = rng.random()
                if k < 0.45:
                    base = rng.choice(LANGS)
                    ops.append("C %s %s" % (lang if rng.random() < 0.3 else base, sent(base, rng.choice(WORD_COUNTS), rng.random() < 0.8)))
                elif k < 0.6:
                    ops.append("E %s %s" % (lang, hx(rng.randbytes(rng.choice(ENT_LENS)))))
                elif k < 0.8:
                    ops.append("N %d %s -" % (rng.choice(WORD_COUNTS + [13]), lang))
                elif k < 0.9:
                    ops.append("S %s %s" % (hx(b"abandon"), hx(rng.choice([b"", b"x"]))))
                else:
                    ops.append("L %s" % lang)
            prog.append(ops)
        progs.append(prog)
    # concurrent NewMnemonic only (the default source is shared by all goroutines)
    for _ in range(4 if q else 40):
        progs.append([["N %d %s -" % (rng.choice(WORD_COUNTS), rng.choice(LANGS)) for _ in range(6)] for _ in range(rng.choice((4, 8, 16)))])
    # concurrent draws AFTER failed draws (a prelude run before the goroutines start; scripted source that fails after
    # k bytes): whatever a failed call leaves in a pool is then handed to concurrent callers
    for _ in range(4 if q else 40):
        pre = ["PRE"] + ["N %d %s %s" % (n_, rng.choice(LANGS), gens.script_str([(rng.randbytes(rng.randrange(0, n_)), rng.choice(gens.ERR_KINDS))]))
                         for n_ in [rng.choice(WORD_COUNTS) for _ in range(rng.randrange(1, 4))]]
        progs.append([pre] + [["N %d %s -" % (rng.choice(WORD_COUNTS), rng.choice(LANGS)) for _ in range(6)] for _ in range(rng.choice((4, 8, 16)))])
    # concurrent seed derivations: same mnemonic with different short passphrases; argument pairs whose
    # concatenation (bare, or around a delimiter) coincides although the pairs differ
    M = gens.sentence("English", gens.indices_of_entropy(rng.randbytes(16)))
    M15 = gens.sentence("English", gens.indices_of_entropy(rng.randbytes(20)))
    for _ in range(3 if q else 20):
        g = rng.choice((4, 8))
        pws = [bytes(rng.randrange(0x21, 0x7F) for _ in range(rng.randrange(0, 50))) for _ in range(g)]
        progs.append([["S %s %s" % (hx(M), hx(pw))] * 3 for pw in pws])
    for delim in (b"", b" ", b"\x00", b"|", b"mnemonic", b":", b"/"):
        A, B, C = M, b" ".join(M15.split(b" ")[:3]), b"pass"
        x, y = "S %s %s" % (hx(A), hx(B + delim + C)), "S %s %s" % (hx(A + delim + B), hx(C))
        progs.append([[x] * 3, [y] * 3, [x, y, x], [y, x, y]])
    drawn = run_concurrent(res, progs)
    check_drawn(res, drawn)
    res.sample({"program": [g for g in progs[0][:2]], "goroutines": len(progs[0])})
    res.notes.append("implrun built with go build -race -tags verif; every program runs in a fresh process; goroutines are released together by a barrier")
    return res


def check_drawn(res, drawn):
    """mnemonics drawn concurrently from the default source: each must be a valid sentence of its language (checksum
    intact: not assembled from another call's bytes), not the all-zero entropy, and all pairwise distinct"""
    lines = ["C %s %s" % (lang if lang in LANGS else "English", mn) for lang, mn, _ in drawn]
    spec = common.run_model(lines, "spec") if lines else []
    seen = {}
    for (lang, mn, case), ln, sp in zip(drawn, lines, spec):
        res.evaluations += 1
        res.count("N/concurrent-default-source")
        why = None
        if not sp.startswith("accept"):
            why = "a mnemonic returned by a concurrent NewMnemonic is not a valid sentence (%s)" % sp[:60]
        elif mn in seen:
            why = "two concurrent NewMnemonic calls returned the same mnemonic"
        elif unhx(mn).split(gens.sep(lang) if lang in LANGS else b" ")[:4] == [gens.table(lang if lang in LANGS else "English")[0]] * 4:
            why = "a concurrent NewMnemonic returned a mnemonic of (nearly) all-zero entropy"
        seen[mn] = True
        if why:
            res.violation(stream="race", case=case[:4000], failing_op=ln[:400], impl=mn[:200], model="", spec=sp[:100], why=why)


def json_key(x):
    import json as _j
    return hashlib.sha256(_j.dumps(x).encode()).hexdigest()


# ---------------------------------------------------------------- C07
def plain_source_probe(res):
    """The identity of the default randomness source in the PLAIN build of the package (no verif tag): the variable is
    unexported and the hook that exposes it exists only with the tag, so an in-package test is compiled into a scratch
    copy of the working tree (outside /repo and /verif, removed afterwards) and run without tags."""
    import os, re, shutil, subprocess, tempfile
    body = open(os.path.join(common.COQ, "Gen", "Body.v")).read()
    m = re.search(r'Definition readfull_src : string := "([A-Za-z_][A-Za-z_0-9]*)"', body)
    var = m.group(1) if m else "cryptoRander"
    tmp = tempfile.mkdtemp(prefix="verif-c07-")
    try:
        dst = os.path.join(tmp, "repo")
        shutil.copytree(common.REPO, dst, ignore=shutil.ignore_patterns(".git"))
        open(os.path.join(dst, "zz_verif_probe_test.go"), "w").write("""package bip39

import (
	"crypto/rand"
	"fmt"
	"testing"
)

func TestZZVerifPlainProbe(t *testing.T) {
	same := false
	func() {
		defer func() { _ = recover() }()
		same = interface{}(%s) == interface{}(rand.Reader)
	}()
	fmt.Printf("PROBE default-is-crypto-rand=%%v\\n", same)
}
""" % var)
        p = subprocess.run(["go", "test", "-count=1", "-vet=off", "-v", "-run", "TestZZVerifPlainProbe", "."], cwd=dst, env=common.GOENV,
                           stdout=subprocess.PIPE, stderr=subprocess.STDOUT, text=True, timeout=600)
        out = p.stdout
    except Exception as ex:   # noqa
        out = "probe failed to run: %r" % (ex,)
    finally:
        shutil.rmtree(tmp, ignore_errors=True)
    res.evaluations += 1
    res.count("W/plain-build-probe")
    if "PROBE default-is-crypto-rand=true" in out:
        return
    if "PROBE default-is-crypto-rand=false" in out:
        res.violation(stream="W", case="W (plain build, in-package probe)", impl="default-is-crypto-rand=false", model="", spec="default-is-crypto-rand=true", build="plain (no verif tag)",
                      why="in the package built without the verif tag the default randomness source is not crypto/rand.Reader")
    else:
        res.corr_break(stream="W", case="plain-build probe", impl=out[-600:], why="the in-package probe of the default source did not compile or run in the plain build")


def C07(tier, seed, st):
    res = Result("C07")
    rng = random.Random(seed)
    q = tier == "quick"
    import math
    plain_source_probe(res)
    # (1) identity of the pre-swap source, in a fresh process; also under every environment variable the
    #     package reads (none at the pinned commit) and a few common debugging knobs
    envs = [{}]
    for name in common.env_reads():
        if name and not name.startswith("<"):
            for val in ("1", "42", "true"):
                envs.append({name: val})
    for e in envs:
        r = common.run_impl_env(["W"], e)[0]
        res.evaluations += 1
        res.nontrivial.add("W %s" % sorted(e.items()))
        res.count("W")
        if r != "default-is-crypto-rand=true restored=true":
            res.violation(stream="W", case="W", env=e, impl=r, model="", spec="default-is-crypto-rand=true restored=true",
                          why="the randomness source consulted before any swap is not crypto/rand.Reader itself")
    # (2) output is a function of the source's bytes only: scripted sources with every value of the first and of the
    #     last byte, constant buffers, and fragmentation; expected = the specification's encoding of those bytes
    lines, datas = [], []
    for n in WORD_COUNTS:
        need = n + n // 3
        lang = rng.choice(LANGS)
        pats = [bytes([b]) + rng.randbytes(need - 1) for b in range(256)]
        pats += [rng.randbytes(need - 1) + bytes([b]) for b in (range(256) if not q else range(0, 256, 8))]
        pats += [bytes([b]) * need for b in (0, 1, 0x7f, 0x80, 0xff)]
        pats += [bytes(k) + rng.randbytes(need - k) for k in range(1, 9)]
        for d in pats:
            parts = gens.fragment(rng, d, rng.randrange(1, 4))
            lines.append("N %d %s %s" % (n, lang, gens.script_str([(p_, None) for p_ in parts])))
            datas.append((lang, d))
    for n in WORD_COUNTS:     # a slow source
        need = n + n // 3
        d = rng.randbytes(need)
        lang = rng.choice(LANGS)
        lines.append("N %d %s %s" % (n, lang, gens.script_str([(d[:1], None), (d[1:], None, 2600)])))
        datas.append((lang, d))
    impl = common.run_impl(lines)
    model = common.run_model(lines, "model")
    spec = common.run_model(["E %s %s" % (lang, hx(d)) for lang, d in datas], "spec")
    for ln, i, m, sp in zip(lines, impl, model, spec):
        res.evaluations += 1
        res.count("N/scripted")
        res.nontrivial.add(ln)
        head = i.split(" used=")[0]
        if head != sp:
            res.violation(stream="N", case=ln, impl=i, model=m, spec=sp, why="NewMnemonic output is not the encoding of exactly the bytes its source delivered")
        elif i.rsplit(" reads=", 1)[0] != m:
            res.corr_break(stream="N", case=ln, impl=i, model=m, why="model and implementation differ")
    # (3) default-source output: pairwise distinct entropies, byte frequencies within 8 sigma (false alarm < 2^-40)
    per = 256 if q else 4096
    gl = ["G %d %s %d" % (n, rng.choice(LANGS), per) for n in WORD_COUNTS]
    gi = common.run_impl(gl, shards=5)
    dl = []
    for ln, r in zip(gl, gi):
        lang = ln.split()[2]
        for mn in r.split(","):
            dl.append("D %s %s" % (lang, mn))
    dec = common.run_model(dl, "spec")
    ents = [d[4:] for d in dec if d.startswith("ent ")]
    res.evaluations += len(dl)
    res.count("G/default-source", len(dl))
    if len(ents) != len(dl):
        bad = [(a, b) for a, b in zip(dl, dec) if not b.startswith("ent ")][0]
        res.violation(stream="G", case=bad[0], impl=bad[1], model="", spec="a decodable mnemonic", why="default-source NewMnemonic output does not decode")
    elif len(set(ents)) != len(ents):
        res.violation(stream="G", case=gl[0], impl="%d distinct of %d" % (len(set(ents)), len(ents)), model="", spec="pairwise distinct",
                      why="the default source repeated an entropy: not a CSPRNG")
    else:
        allb = b"".join(bytes.fromhex(e) for e in ents)
        N = len(allb)
        exp = N / 256.0
        sigma = math.sqrt(N * (1 / 256.0) * (255 / 256.0))
        cnt = [0] * 256
        for b in allb:
            cnt[b] += 1
        worst = max(range(256), key=lambda b: abs(cnt[b] - exp))
        dev = abs(cnt[worst] - exp) / sigma
        res.notes.append("default source: %d entropies, %d bytes, worst byte-frequency deviation %.2f sigma (byte 0x%02x)" % (len(ents), N, dev, worst))
        res.nontrivial.add("G-stat")
        if dev > 8:
            res.violation(stream="G", case=gl[0], impl="byte 0x%02x occurs %d times in %d bytes (%.1f sigma)" % (worst, cnt[worst], N, dev), model="",
                          spec="uniform bytes", why="default-source entropy bytes are not uniformly distributed")
    # (3b) draws of MIXED sizes from the default source in ONE process (a buffered or pooled wrapper around the source
    # shows at its refill boundaries, which calls of a single size may never straddle): every entropy decodes, all are
    # distinct, and none contains a run of 9 or more equal bytes - the mark of a buffer that was only partly filled
    # (chance for a sound source: < 32 * 2^-64 per draw, below 2^-44 for the 20 000 draws of the thorough tier)
    per2 = 16 if q else 64
    gm = ["G %d %s %d" % (WORD_COUNTS[(k * 3 + k // 5) % 5], rng.choice(LANGS), per2) for k in range(80 if q else 320)]
    gmi = common.run_impl(gm, shards=1)
    dm = []
    for ln, r in zip(gm, gmi):
        for mn in r.split(","):
            dm.append("D %s %s" % (ln.split()[2], mn))
    decm = common.run_model(dm, "spec")
    res.evaluations += len(dm)
    res.count("G/default-source-mixed", len(dm))
    seen_m = set()
    for a, b in zip(dm, decm):
        if not b.startswith("ent "):
            res.violation(stream="G", case=a, impl=b, model="", spec="a decodable mnemonic", why="default-source NewMnemonic output (mixed sizes, one process) does not decode")
            break
        e = bytes.fromhex(b[4:])
        run = best = 1
        for x, y in zip(e, e[1:]):
            run = run + 1 if x == y else 1
            best = max(best, run)
        if best >= 9:
            res.violation(stream="G", case=a, impl=b, model="", spec="entropy from the OS CSPRNG",
                          why="default-source entropy contains a run of %d equal bytes: a partly filled buffer, not CSPRNG output (calls of mixed sizes in one process)" % best)
            break
        if b in seen_m:
            res.violation(stream="G", case=a, impl=b, model="", spec="pairwise distinct", why="the default source repeated an entropy (mixed sizes, one process)")
            break
        seen_m.add(b)
    res.nontrivial.add("G-mixed")
    # (4) the same draws made CONCURRENTLY (the default source is shared by all goroutines)
    ok, log = common.build_race()
    if ok:
        progs = [[["N %d %s -" % (rng.choice(WORD_COUNTS), rng.choice(LANGS)) for _ in range(12)] for _ in range(g)] for g in ((8, 16) if q else (2, 4, 8, 16, 16, 16))]
        drawn = []
        for prog, (rows, race, rc, err) in zip(progs, common.run_race(progs)):
            res.evaluations += 1
            case = "race " + " || ".join("|".join(g) for g in prog)
            if race or rc != 0 or len(rows) != len(prog):
                res.violation(stream="race", case=case[:3000], impl=(race or "rc=%s %s" % (rc, err[-400:]))[:1500], model="", spec="no data race, normal completion",
                              why="concurrent NewMnemonic on the default source raced or crashed")
                continue
            for g, row in zip(prog, rows):
                for op, r in zip(g, row):
                    if r.startswith("ok words="):
                        drawn.append((op.split()[2], r.split(" ")[2], case))
                    else:
                        res.violation(stream="race", case=case[:3000], failing_op=op, impl=r[:200], model="", spec="a mnemonic", why="concurrent NewMnemonic failed")
        check_drawn(res, drawn)
        res.streams["race-processes"] = len(progs)
    else:
        res.corr_break(stream="race", case="-", why="implrun does not build with -race: " + log[-300:])
    res.sample({"case": "W", "impl": "default-is-crypto-rand=true restored=true"})
    res.sample({"case": lines[0], "impl": impl[0]})
    res.streams.update({"W": len(envs), "N": len(lines), "G": len(dl)})
    return res


def plain_build_stream(res, rng, tier):
    """The package exactly as users build it (harness built WITHOUT the verif tag) against the instrumented build and
    the specification, on the ops that need no hook: a file under a build constraint that behaves differently with
    the tag off (or on) shows up here.  Part of every check."""
    q = tier == "quick"
    ops = []
    for lang in LANGS:
        for el in ENT_LENS:
            ents = [rng.randbytes(el), (bytes(2) + rng.randbytes(el))[:el]] + gens.zero_checksum_entropies(rng, el, (0,))
            for e in ents if not q else ents[:2]:
                ops.append("E %s %s" % (lang, hx(e)))
        for tag, b in gens.validator_inputs(rng, lang, n=rng.choice(WORD_COUNTS)):
            ops.append("C %s %s" % (lang, hx(b)))
        ops.append("L %s" % lang)
    for u in UNSUPPORTED[:5]:
        ops += ["L %s" % u, "E %s %s" % (u, hx(rng.randbytes(16))), "C %s %s" % (u, hx(gens.encode("English", rng.randbytes(16))))]
    pool = [x.encode() for x in gens.nfc_like_pool()]
    M = gens.encode("English", rng.randbytes(16))
    for _ in range(8 if q else 60):
        ops.append("S %s %s" % (hx(rng.choice([M, gens.encode("Japanese", rng.randbytes(16)), rng.choice(pool)])), hx(rng.choice([b"", b"TREZOR", rng.choice(pool)]))))
    ops.append("S %s %s" % (hx(M), hx("\u00e9\uff21\u3000\u212b".encode())))      # a passphrase that NFKD changes
    ops.append("S %s %s" % (hx(gens.sentence("Japanese", gens.indices_of_entropy(rng.randbytes(16)), b" ")), hx("\u304c\u30ac".encode())))
    ops += ["E English -", "E English %s" % hx(rng.randbytes(15)), "C English -", "S - -"]
    plain = common.run_impl_plain(ops)
    inst = common.run_impl(ops)
    spec = common.run_model(ops, "spec")
    def judge(op, a, sp, label):
        why = None
        if op[0] in "EL" and sp not in ("unspecified", None) and strip_impl_E(a) != sp and not (op[0] == "E" and not a.startswith("ok ") and not sp.startswith("ok ")):
            why = label + " differs from the specification"
        elif op[0] == "C":
            why = judge_op_validator(op, a, sp)
            if why:
                why = label + ": " + why
        elif op[0] == "S":
            f = sp.split()
            if f[5] == "xs=1" and a.replace(" NOT-FRESH", "") != "seed " + pbk(unhx(f[1]), unhx(f[2])):
                why = label + " derives a seed that differs from the specification"
        return why
    for op, a, b, sp in zip(ops, plain, inst, spec):
        res.evaluations += 1
        res.count("plain-build/" + op[0])
        if a != b:
            res.corr_break(stream="plain-build", case=op, impl=a[:300], model=b[:300],
                           why="the package built WITHOUT the verif tag (what users build) returns something else than the instrumented build the other streams exercise")
        why = judge(op, a, sp, "the plain build (no verif tag)")
        if why:
            res.violation(stream="plain-build", case=op, impl=a[:400], impl_instrumented=b[:400], model="", spec=(sp or "")[:400], build="plain (no verif tag)", why=why)
    res.streams["plain-build"] = len(ops)
    # the same calls in fresh processes whose ENVIRONMENT sets each variable the package reads (discovered by the
    # translator: none at the pinned commit) to several values: no result may depend on the environment
    names = [n for n in common.env_reads() if n and not n.startswith("<")]
    for name in names:
        for val in ("1", "0", "", "true", "all"):
            outs = common.run_impl_env(ops, {name: val})
            for op, a, sp in zip(ops, outs, spec):
                res.evaluations += 1
                res.count("env/" + op[0])
                why = judge(op, a, sp, "with %s=%r in the environment the implementation" % (name, val))
                if why:
                    res.violation(stream="env", case=op, env={name: val}, impl=a[:400], model="", spec=(sp or "")[:400], why=why)
                    break
    if names:
        res.streams["env"] = len(ops) * len(names) * 5
        res.notes.append("environment variables read by the package (from the translator's inventory): " + ", ".join(names))


CHECKS = {"C17": C17, "C12": C12, "C04": C04, "C11": C11, "C07": C07, "C08": C08, "C13": C13, "C14": C14, "C01": C01, "C02": C02, "C03": C03, "C05": C05, "C06": C06, "C09": C09, "C10": C10, "C15": C15, "C16": C16}
