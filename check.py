#!/usr/bin/env python3
"""Entry point of every registered check:
     check.py <property id> [--tier quick|thorough]      (VERIF_SEED, VERIF_TIER honoured)
     check.py replay <replay file>
     check.py setup                                      (build everything once)
"""
import json, os, sys, time
sys.path.insert(0, os.path.join(os.path.dirname(os.path.abspath(__file__)), "engine"))
import common, core, props


def main():
    a = sys.argv[1:]
    if not a:
        print(__doc__)
        return 2
    if a[0] == "setup":
        st = common.prepare()
        print("setup: %.1fs model_ok=%s impl_ok=%s failed=%s" % (st["seconds"], st["model_ok"], st["impl_ok"], st["failed"]))
        if st["log"].strip():
            print(st["log"][-3000:])
        return 0 if st["model_ok"] and st["impl_ok"] and not st["failed"] else 1
    if a[0] == "replay":
        rp = json.load(open(a[1]))
        st = common.prepare()
        case = rp.get("case")
        if isinstance(case, str) and case.startswith("race ") and not case.endswith("..."):
            # a concurrent program: goroutines separated by " || ", ops by "|" (a group starting with PRE runs first, alone)
            prog = [g.split("|") for g in case[5:].split(" || ")]
            ok, log = common.build_race()
            rows, race, rc, err = common.run_race([prog])[0]
            print("program:", json.dumps(prog)[:2000])
            print("rc:", rc)
            for r in rows:
                print("goroutine:", " | ".join(r)[:600])
            print("race detector:", race or "no report")
            return 0
        if not isinstance(case, str) or not case or case.split()[0] not in "ENCVSLKRHMPQI" or rp.get("no_failing_input_found"):
            print(json.dumps(rp, indent=1))
            return 0
        print("case :", case)
        print("impl :", common.run_impl([case])[0])
        if case.split()[0] in "ECSL":
            print("plain:", common.run_impl_plain([case])[0], "  (the package built without the verif tag)")
        print("model:", common.run_model([case], "model")[0])
        print("spec :", common.run_model([case], "spec")[0])
        return 0
    pid = a[0]
    tier = os.environ.get("VERIF_TIER", "quick")
    if "--tier" in a:
        tier = a[a.index("--tier") + 1]
    seed = int(os.environ.get("VERIF_SEED", "1"))
    if pid not in props.CHECKS:
        print("unknown property", pid)
        return 2
    t0 = time.time()
    st = common.prepare()
    if not st["impl_ok"]:
        # the tree does not build with hooks on: nothing can be explored
        print("implementation harness does not build:\n" + st["log"][-2000:])
    proof = core.proof_status(pid, st)
    if st["impl_ok"] and st["model_ok"]:
        try:
            res = props.CHECKS[pid](tier, seed, st)
            import random as _random
            props.plain_build_stream(res, _random.Random(seed + 7), tier)
            changed = common.changed_functions()
            if changed and tier == "quick":
                # the hand-modelled source differs from the pinned fingerprints: more rounds of the same streams
                for extra in (seed + 1000003, seed + 2000006):
                    res.merge(props.CHECKS[pid](tier, extra, st))
                res.notes.append("source functions differ from canon/fingerprints.json (%s): ran 3 rounds" % ", ".join(changed))
        except Exception:
            import traceback
            tb = traceback.format_exc()
            sys.stderr.write(tb)
            res = core.Result(pid)
            res.notes.append("exploration aborted by an internal error of the harness:\n" + tb[-3000:])
            res.corr_break(stream="harness", case="-", why="exploration aborted: " + tb.strip().splitlines()[-1])
    else:
        res = core.Result(pid)
        res.notes.append("model or implementation harness did not build; no exploration: " + st["log"][-1500:])
        res.corr_break(stream="build", case="-", why="harness or model did not build")
    if tier == "thorough" and proof["ok"] and os.environ.get("VERIF_SKIP_COQCHK") != "1":
        ck = common.coqchk_cached()
        res.notes.append("coqchk -silent -o over all property files: rc=%s %.0fs: %s" % (ck["rc"], ck["seconds"], ck["summary"][:400]))
        if not ck["ok"]:
            proof["ok"] = False
            proof["failed"] = {"coqchk": ck["summary"][-800:]}
    return core.finish(pid, tier, seed, t0, st, proof, res)


if __name__ == "__main__":
    sys.exit(main())
