From Coq Require Import List NArith Lia Bool.
Import ListNotations.
Local Open Scope N_scope.

Section R.
Variable ccc : N -> N.

Fixpoint insert_front (c : N) (l : list N) : list N :=
  match l with
  | x :: r => if (0 <? ccc x) && (ccc x <? ccc c) then x :: insert_front c r else c :: l
  | [] => [c]
  end.
Fixpoint reorder (l : list N) : list N :=
  match l with
  | [] => []
  | c :: r => if ccc c =? 0 then c :: reorder r else insert_front c (reorder r)
  end.

Lemma insert_front_app_starter c a s b : ccc s = 0 ->
  insert_front c (a ++ s :: b) = insert_front c a ++ s :: b.
Proof.
  intros Hs. induction a as [|x a IH]; cbn [app insert_front].
  - rewrite Hs. cbn. reflexivity.
  - destruct ((0 <? ccc x) && (ccc x <? ccc c)); [rewrite IH|]; reflexivity.
Qed.

(* reordering never crosses a starter *)
Lemma reorder_app_starter a s b : ccc s = 0 ->
  reorder (a ++ s :: b) = reorder a ++ s :: reorder b.
Proof.
  intros Hs. induction a as [|c a IH]; cbn [app reorder].
  - rewrite Hs. cbn. reflexivity.
  - rewrite IH. destruct (ccc c =? 0); [reflexivity|]. apply insert_front_app_starter. exact Hs.
Qed.

(* a prefix of starters is untouched *)
Lemma reorder_starters_prefix p l : Forall (fun c => ccc c = 0) p -> reorder (p ++ l) = p ++ reorder l.
Proof.
  induction 1 as [|c p Hc _ IH]; cbn [app reorder]; [reflexivity|]. rewrite Hc, IH. reflexivity.
Qed.

(* the pattern of "modifier" positions is invariant: any P true on all non-starters *)
Variable P : N -> bool.
Hypothesis P_ns : forall c, ccc c <> 0 -> P c = true.
Lemma map_insert_front c l : ccc c <> 0 -> map P (insert_front c l) = P c :: map P l.
Proof.
  intros Hc. induction l as [|x r IH]; cbn [insert_front map]; [reflexivity|].
  destruct (0 <? ccc x) eqn:E1; cbn [andb]; [|reflexivity].
  destruct (ccc x <? ccc c) eqn:E2; [|reflexivity].
  cbn [map]. rewrite IH. apply N.ltb_lt in E1. rewrite (P_ns x) by lia. rewrite (P_ns c Hc). reflexivity.
Qed.
Lemma map_reorder l : map P (reorder l) = map P l.
Proof.
  induction l as [|c r IH]; cbn [reorder map]; [reflexivity|].
  destruct (N.eqb_spec (ccc c) 0) as [E|E]; cbn [map]; [rewrite IH; reflexivity|].
  rewrite map_insert_front by exact E. rewrite IH. reflexivity.
Qed.
End R.
