From Coq Require Import List NArith Lia Bool Arith.
Import ListNotations.
Local Open Scope N_scope.

(* MSB-first bit lists *)
Definition val (bs : list bool) : N := fold_left (fun a b => 2 * a + N.b2n b) bs 0.

Lemma fold_val_acc bs : forall a, fold_left (fun a b => 2 * a + N.b2n b) bs a = a * 2 ^ N.of_nat (length bs) + val bs.
Proof.
  unfold val. induction bs as [|b bs IH]; intros a; cbn [fold_left length].
  - rewrite N.pow_0_r. lia.
  - rewrite IH. rewrite (IH (2 * 0 + N.b2n b)). rewrite Nat2N.inj_succ, N.pow_succ_r'. lia.
Qed.

Lemma val_app a b : val (a ++ b) = val a * 2 ^ N.of_nat (length b) + val b.
Proof. unfold val at 1. rewrite fold_left_app. fold (val a). apply fold_val_acc. Qed.

Lemma val_bound bs : val bs < 2 ^ N.of_nat (length bs).
Proof.
  induction bs as [|b bs IH] using rev_ind.
  - cbn. lia.
  - rewrite val_app, app_length. cbn [length]. change (N.of_nat 1) with 1. rewrite N.pow_1_r.
    replace (N.of_nat (length bs + 1)) with (N.succ (N.of_nat (length bs))) by lia. rewrite N.pow_succ_r'.
    change (val [b]) with (2 * 0 + N.b2n b). destruct b; cbn [N.b2n]; lia.
Qed.

Fixpoint chunks {A} (k n : nat) (l : list A) : list (list A) :=
  match n with O => [] | S n' => firstn k l :: chunks k n' (skipn k l) end.

Lemma chunks_snoc {A} k n (l c : list A) :
  length l = (k * n)%nat -> chunks k (S n) (l ++ c) = chunks k n l ++ [firstn k c].
Proof.
  revert l. induction n as [|n IH]; intros l Hl.
  - rewrite Nat.mul_0_r in Hl. destruct l; [|discriminate]. reflexivity.
  - change (chunks k (S (S n)) (l ++ c)) with (firstn k (l ++ c) :: chunks k (S n) (skipn k (l ++ c))).
    change (chunks k (S n) l) with (firstn k l :: chunks k n (skipn k l)). assert (Hk : (k <= length l)%nat) by lia.
    rewrite firstn_app, skipn_app.
    replace (k - length l)%nat with 0%nat by lia. cbn [firstn skipn]. rewrite app_nil_r.
    cbn [app]. f_equal. apply IH. rewrite skipn_length. lia.
Qed.

Fixpoint peel (n : nat) (v : N) (acc : list N) : list N :=
  match n with O => acc | S k => peel k (v / 2048) (N.land v 2047 :: acc) end.

Lemma peel_spec n : forall B acc, length B = (11 * n)%nat -> peel n (val B) acc = map val (chunks 11 n B) ++ acc.
Proof.
  induction n as [|n IH]; intros B acc HB.
  - reflexivity.
  - pose (B1 := firstn (11 * n) B). pose (c := skipn (11 * n) B).
    assert (HB1 : length B1 = (11 * n)%nat) by (unfold B1; rewrite firstn_length; lia).
    assert (Hc : length c = 11%nat) by (unfold c; rewrite skipn_length; lia).
    assert (E : B = B1 ++ c) by (unfold B1, c; symmetry; apply firstn_skipn).
    rewrite E. rewrite chunks_snoc by exact HB1. rewrite firstn_all2 by lia.
    cbn [peel]. rewrite val_app, Hc.
    change (2 ^ N.of_nat 11) with 2048.
    pose proof (val_bound c) as Hb. rewrite Hc in Hb. change (2 ^ N.of_nat 11) with 2048 in Hb.
    change 2047 with (N.ones 11). rewrite N.land_ones. change (2 ^ 11) with 2048.
    replace ((val B1 * 2048 + val c) mod 2048) with (val c)
      by (rewrite N.add_comm, N.mod_add by lia; symmetry; apply N.mod_small; exact Hb).
    replace ((val B1 * 2048 + val c) / 2048) with (val B1)
      by (rewrite N.add_comm, N.div_add by lia; rewrite (N.div_small _ _ Hb); reflexivity).
    rewrite IH by exact HB1. rewrite map_app, <- app_assoc. reflexivity.
Qed.
