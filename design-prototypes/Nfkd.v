From Coq Require Import List NArith Bool FMapPositive Init.Byte.
Require Import NfkdTable.
Import ListNotations.
Local Open Scope N_scope. Local Open Scope bool_scope.

Definition tbl : PositiveMap.t (N * list N) :=
  Eval vm_compute in fold_left (fun m e => PositiveMap.add (N.succ_pos (fst e)) (snd e) m) nfkd_raw (PositiveMap.empty _).

Definition ccc (c : N) : N := match PositiveMap.find (N.succ_pos c) tbl with Some (k,_) => k | None => 0 end.
Definition is_hangul c := (0xAC00 <=? c) && (c <=? 0xD7A3).
Definition decomp (c : N) : list N :=
  if is_hangul c then
    let s := c - 0xAC00 in
    let l := 0x1100 + s / 588 in
    let v := 0x1161 + (s mod 588) / 28 in
    let t := s mod 28 in
    if t =? 0 then [l; v] else [l; v; 0x11A7 + t]
  else match PositiveMap.find (N.succ_pos c) tbl with
       | Some (_, (_ :: _) as d) => d
       | _ => [c]
       end.

(* items: code point or raw invalid byte (encoded as 0x110000 + b) *)
Fixpoint insert_ns (c : N) (l : list N) : list N :=
  match l with
  | x :: r => if (0 <? ccc x) && (ccc x <=? ccc c) then x :: insert_ns c r else c :: l
  | [] => [c]
  end.
(* process from the left with an accumulator kept reversed would be stable; here: right fold,
   c precedes everything in r, so it goes before elements with ccc >= its own *)
Fixpoint insert_front (c : N) (l : list N) : list N :=
  match l with
  | x :: r => if (0 <? ccc x) && (ccc x <? ccc c) then x :: insert_front c r else c :: l
  | [] => [c]
  end.
Fixpoint reorder (l : list N) : list N :=
  match l with
  | [] => []
  | c :: r => if ccc c =? 0 then c :: reorder r else insert_front c (reorder r)
  end.

Definition nfkd_cps (l : list N) : list N := reorder (flat_map decomp l).

(* UTF-8 *)
Definition cont (b : N) := (0x80 <=? b) && (b <=? 0xBF).
Fixpoint utf8_decode (fuel : nat) (bs : list N) : list N :=
  match fuel with O => [] | S f =>
  match bs with
  | [] => []
  | b0 :: r =>
    if b0 <? 0x80 then b0 :: utf8_decode f r else
    let bad := (0x110000 + b0) :: utf8_decode f r in
    if b0 <? 0xC2 then bad else
    if b0 <? 0xE0 then
      match r with b1 :: r1 => if cont b1 then ((b0 - 0xC0) * 64 + (b1 - 0x80)) :: utf8_decode f r1 else bad | _ => bad end
    else if b0 <? 0xF0 then
      match r with b1 :: b2 :: r2 =>
        let lo := if b0 =? 0xE0 then 0xA0 else 0x80 in
        let hi := if b0 =? 0xED then 0x9F else 0xBF in
        if (lo <=? b1) && (b1 <=? hi) && cont b2 then ((b0 - 0xE0) * 4096 + (b1 - 0x80) * 64 + (b2 - 0x80)) :: utf8_decode f r2 else bad
      | _ => bad end
    else if b0 <? 0xF5 then
      match r with b1 :: b2 :: b3 :: r3 =>
        let lo := if b0 =? 0xF0 then 0x90 else 0x80 in
        let hi := if b0 =? 0xF4 then 0x8F else 0xBF in
        if (lo <=? b1) && (b1 <=? hi) && cont b2 && cont b3 then ((b0 - 0xF0) * 262144 + (b1 - 0x80) * 4096 + (b2 - 0x80) * 64 + (b3 - 0x80)) :: utf8_decode f r3 else bad
      | _ => bad end
    else bad
  end end.

Definition utf8_encode1 (c : N) : list N :=
  if c <? 0x80 then [c]
  else if c <? 0x800 then [0xC0 + c / 64; 0x80 + c mod 64]
  else if c <? 0x10000 then [0xE0 + c / 4096; 0x80 + (c / 64) mod 64; 0x80 + c mod 64]
  else if c <? 0x110000 then [0xF0 + c / 262144; 0x80 + (c / 4096) mod 64; 0x80 + (c / 64) mod 64; 0x80 + c mod 64]
  else [c - 0x110000].

Definition nfkd (bs : list N) : list N := flat_map utf8_encode1 (nfkd_cps (utf8_decode (length bs) bs)).

Fixpoint leqb (a b : list N) : bool :=
  match a, b with [], [] => true | x :: a', y :: b' => (x =? y) && leqb a' b' | _, _ => false end.

Definition to_n (w : list byte) : list N := map Byte.to_N w.
Definition stable (ws : list (list byte)) : bool := forallb (fun w => let n := to_n w in leqb (nfkd n) n) ws.
