From Coq Require Import List NArith Lia Bool Arith Init.Byte.
Require Import Core.
Import ListNotations.
Local Open Scope N_scope.

(* ---------- spec side ---------- *)
Definition bits_of_N (w : nat) (n : N) : list bool :=
  map (fun i => N.testbit n (N.of_nat i)) (rev (seq 0 w)).
Definition bits_of_byte (b : byte) : list bool := bits_of_N 8 (Byte.to_N b).
Definition bits (bs : list byte) : list bool := flat_map bits_of_byte bs.

Section WithHash.
Variable hash : list byte -> list byte.
Hypothesis hash_len : forall x, length (hash x) = 32%nat.

Definition spec_indices (ent : list byte) : list N :=
  let cs := (length ent / 4)%nat in
  map val (chunks 11 (length ent / 4 * 3) (bits ent ++ firstn cs (bits (hash ent)))).

(* ---------- model side (entropy.go) ---------- *)
Definition be_to_N (bs : list byte) : N := fold_left (fun a b => a * 256 + Byte.to_N b) bs 0.

Definition model_indices (ent : list byte) (wordLen : nat) : option (list N) :=
  let checksum := firstn 1 (hash ent) in
  let csInt := be_to_N checksum in
  let csBitLen := N.of_nat (length ent / 4) in
  let divisor := if csBitLen <=? 8 then 2 ^ (8 - csBitLen) else 0 in   (* uint wrap: 1<<(huge) = 0 *)
  if divisor =? 0 then None (* big.Int.Quo panics *) else
  let csInt := csInt / divisor in
  let entInt := N.shiftl (be_to_N ent) csBitLen + csInt in
  Some (peel wordLen entInt []).

(* ---------- lemmas ---------- *)
Lemma bits_of_N_length w n : length (bits_of_N w n) = w.
Proof. unfold bits_of_N. rewrite map_length, rev_length, seq_length. reflexivity. Qed.

Lemma val_bits_of_N w : forall n, val (bits_of_N w n) = n mod 2 ^ N.of_nat w.
Proof.
  induction w as [|w IH]; intros n.
  - cbn. rewrite N.mod_1_r. reflexivity.
  - unfold bits_of_N. rewrite seq_S, rev_app_distr. cbn [rev app map Nat.add].
    change (val (N.testbit n (N.of_nat w) :: ?l)) with (val ([N.testbit n (N.of_nat w)] ++ l)).
    fold (bits_of_N w n).
    change (N.testbit n (N.of_nat w) :: map (fun i : nat => N.testbit n (N.of_nat i)) (rev (seq 0 w)))
      with ([N.testbit n (N.of_nat w)] ++ bits_of_N w n).
    rewrite val_app, bits_of_N_length, IH.
    change (val [N.testbit n (N.of_nat w)]) with (2 * 0 + N.b2n (N.testbit n (N.of_nat w))).
    rewrite N.testbit_spec' .
    rewrite Nat2N.inj_succ, N.pow_succ_r'.
    set (p := 2 ^ N.of_nat w). assert (Hp : 0 < p) by (apply N.neq_0_lt_0, N.pow_nonzero; lia).
    rewrite (N.mul_comm 2 p).
    rewrite N.mod_mul_r by lia. lia.
Qed.

Lemma val_bits_of_byte b : val (bits_of_byte b) = Byte.to_N b.
Proof.
  unfold bits_of_byte. rewrite val_bits_of_N. apply N.mod_small.
  pose proof (Byte.to_N_bounded b). change (2 ^ N.of_nat 8) with 256. lia.
Qed.

Lemma bits_length bs : length (bits bs) = (8 * length bs)%nat.
Proof. induction bs as [|b bs IH]; cbn [bits flat_map length]; [reflexivity|].
  rewrite app_length. fold (bits bs). rewrite IH. unfold bits_of_byte. rewrite bits_of_N_length. lia. Qed.

Lemma be_to_N_acc bs : forall a, fold_left (fun a b => a * 256 + Byte.to_N b) bs a = a * 2 ^ N.of_nat (8 * length bs) + val (bits bs).
Proof.
  induction bs as [|b bs IH]; intros a.
  - cbn. lia.
  - cbn [fold_left bits flat_map]. fold (bits bs). rewrite IH, val_app, bits_length, val_bits_of_byte.
    cbn [length]. replace (N.of_nat (8 * S (length bs))) with (8 + N.of_nat (8 * length bs)) by lia.
    rewrite N.pow_add_r. change (2 ^ 8) with 256. lia.
Qed.

Lemma be_to_N_val bs : be_to_N bs = val (bits bs).
Proof. unfold be_to_N. rewrite be_to_N_acc. lia. Qed.

(* first cs bits of a byte = byte / 2^(8-cs) *)
Definition all_bytes : list byte := map (fun n => match Byte.of_N (N.of_nat n) with Some b => b | None => x00 end) (seq 0 256).
Lemma all_bytes_complete b : In b all_bytes.
Proof.
  unfold all_bytes. apply in_map_iff. exists (N.to_nat (Byte.to_N b)). split.
  - rewrite N2Nat.id, Byte.of_to_N. reflexivity.
  - apply in_seq. pose proof (Byte.to_N_bounded b). lia.
Qed.

Lemma firstn_byte_check :
  forallb (fun cs => forallb (fun b => val (firstn cs (bits_of_byte b)) =? Byte.to_N b / 2 ^ (8 - N.of_nat cs)) all_bytes) (seq 0 9) = true.
Proof. vm_compute. reflexivity. Qed.

Lemma val_firstn_byte cs b : (cs <= 8)%nat -> val (firstn cs (bits_of_byte b)) = Byte.to_N b / 2 ^ (8 - N.of_nat cs).
Proof.
  intros H. pose proof firstn_byte_check as C. rewrite forallb_forall in C.
  assert (Hin : In cs (seq 0 9)) by (apply in_seq; lia).
  specialize (C cs Hin). rewrite forallb_forall in C. specialize (C b (all_bytes_complete b)).
  apply N.eqb_eq in C. exact C.
Qed.

Theorem model_is_spec ent k :
  length ent = (4 * k)%nat -> (k <= 8)%nat ->
  model_indices ent (k * 3) = Some (spec_indices ent).
Proof.
  intros Hlen Hk. unfold model_indices, spec_indices.
  assert (Hdiv : (length ent / 4 = k)%nat) by (rewrite Hlen, Nat.mul_comm; apply Nat.div_mul; lia).
  rewrite Hdiv.
  assert (Hle : N.of_nat k <=? 8 = true) by (apply N.leb_le; lia). rewrite Hle.
  assert (Hnz : 2 ^ (8 - N.of_nat k) =? 0 = false) by (apply N.eqb_neq, N.pow_nonzero; lia). rewrite Hnz.
  f_equal.
  (* the hash has at least one byte *)
  pose proof (hash_len ent) as HL. destruct (hash ent) as [|h0 hrest] eqn:EH; [discriminate|].
  cbn [firstn]. 
  assert (Hcs : firstn k (bits (h0 :: hrest)) = firstn k (bits_of_byte h0)).
  { cbn [bits flat_map]. rewrite firstn_app. unfold bits_of_byte at 2. rewrite bits_of_N_length.
    replace (k - 8)%nat with 0%nat by lia. cbn [firstn]. rewrite app_nil_r. reflexivity. }
  rewrite Hcs.
  set (B := bits ent ++ firstn k (bits_of_byte h0)).
  assert (HB : length B = (11 * (k * 3))%nat).
  { unfold B. rewrite app_length, bits_length, firstn_length. unfold bits_of_byte. rewrite bits_of_N_length. lia. }
  rewrite <- (app_nil_r (map val (chunks 11 (k * 3) B))). rewrite <- (peel_spec (k*3) B [] HB).
  f_equal. unfold B. rewrite val_app, firstn_length. unfold bits_of_byte at 1. rewrite bits_of_N_length.
  replace (Nat.min k 8) with k by lia.
  rewrite val_firstn_byte by lia. rewrite N.shiftl_mul_pow2, be_to_N_val.
  unfold be_to_N. cbn [fold_left]. rewrite N.mul_0_l, N.add_0_l. reflexivity.
Qed.
End WithHash.
Print Assumptions model_is_spec.
