From Coq Require Import List Arith Lia Bool.
Import ListNotations.

(* number of j < k*m with j mod m = g (j / m) is exactly k, whenever g h < m *)
Lemma filter_seq_one a m x (P : nat -> bool) :
  a <= x < a + m -> (forall j, a <= j < a + m -> P j = (j =? x)) ->
  length (filter P (seq a m)) = 1.
Proof.
  revert a. induction m as [|m IH]; intros a Hx HP; [lia|].
  cbn [seq filter]. destruct (Nat.eq_dec a x) as [->|Hne].
  - rewrite HP by lia. rewrite Nat.eqb_refl. cbn [length]. f_equal.
    rewrite (proj2 (length_zero_iff_nil _)); [reflexivity|].
    assert (Hnone : forall j, In j (seq (S x) m) -> P j = false).
    { intros j Hj. apply in_seq in Hj. rewrite HP by lia. apply Nat.eqb_neq. lia. }
    clear -Hnone. induction (seq (S x) m) as [|y l IHl]; [reflexivity|].
    cbn [filter]. rewrite Hnone by (left; reflexivity). apply IHl. intros j Hj. apply Hnone. right. exact Hj.
  - rewrite HP by lia. rewrite (proj2 (Nat.eqb_neq a x) Hne). apply IH; [lia|]. intros j Hj. apply HP. lia.
Qed.

Lemma count_mod m k (g : nat -> nat) :
  0 < m -> (forall h, g h < m) ->
  length (filter (fun j => j mod m =? g (j / m)) (seq 0 (k * m))) = k.
Proof.
  intros Hm Hg. induction k as [|k IH]; [reflexivity|].
  replace (S k * m) with (k * m + m) by lia. rewrite seq_app, filter_app, app_length, IH. cbn [Nat.add].
  rewrite (filter_seq_one (k * m) m (k * m + g k)); [lia| specialize (Hg k); lia |].
  intros j Hj.
  assert (Hq : j / m = k) by (symmetry; apply Nat.div_unique with (r := j - k * m); lia).
  assert (Hr : j mod m = j - k * m) by (symmetry; apply Nat.mod_unique with (q := k); lia).
  rewrite Hq, Hr. destruct (Nat.eqb_spec (j - k * m) (g k)), (Nat.eqb_spec j (k * m + g k)); try reflexivity; lia.
Qed.
